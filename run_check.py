#!/venv/bin/python
"""Entry point registered in MANIFEST.json.

  run_check.py CNN [--tier quick|thorough]      run a check (VERIF_SEED, VERIF_TIER honoured)
  run_check.py CNN --replay replays/CNN/x.json  re-run one saved case without Hypothesis
  run_check.py --setup                          install optional wheels into .deps (offline)
"""
import argparse
import os
import subprocess
import sys
import traceback
import warnings

warnings.filterwarnings("ignore")
HERE = os.path.dirname(os.path.abspath(__file__))
sys.path.insert(0, HERE)
os.chdir(HERE)


def setup():
    deps = os.path.join(HERE, ".deps")
    os.makedirs(deps, exist_ok=True)
    ok = True
    try:
        import hypothesis  # noqa
    except ImportError:
        r = subprocess.call([sys.executable, "-m", "pip", "install", "--no-index", "--find-links",
                             "/opt/veriftools/wheels", "--target", deps, "hypothesis"])
        ok = ok and r == 0
    # optional: coverage-guided campaign of C16 (skipped, not failed, when unavailable)
    if not os.path.isdir(os.path.join(deps, "atheris")):
        subprocess.call([sys.executable, "-m", "pip", "install", "--no-index", "--find-links",
                         "/opt/veriftools/wheels", "--target", deps, "--quiet", "atheris"])
    print("setup done (hypothesis ok=%s, atheris=%s)" % (ok, os.path.isdir(os.path.join(deps, "atheris"))))
    return 0 if ok else 2


def main():
    ap = argparse.ArgumentParser()
    ap.add_argument("pid", nargs="?")
    ap.add_argument("--tier", default=os.environ.get("VERIF_TIER", "quick"), choices=["quick", "thorough"])
    ap.add_argument("--replay")
    ap.add_argument("--setup", action="store_true")
    a = ap.parse_args()
    if a.setup:
        return setup()
    if not a.pid:
        ap.error("property id required")
    try:
        seed = int(os.environ.get("VERIF_SEED", "1"))
    except ValueError:
        seed = 1
    try:
        from vlib import runner
        if a.replay:
            return runner.replay(a.pid, a.replay)
        return runner.run_check(a.pid, a.tier, seed)
    except SystemExit:
        raise
    except BaseException:
        traceback.print_exc()
        print("HARNESS-ERROR: %s check could not run" % a.pid)
        return 2


if __name__ == "__main__":
    sys.exit(main())
