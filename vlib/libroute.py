"""Thin helpers around the library under test (reading potable text, pulling the
callables out of a tabulation object, running the real CLI)."""
import io
import os
import subprocess
import sys
import tempfile

from . import bootstrap

bootstrap.activate()

from atsim.potentials.config import Configuration, ConfigParser  # noqa: E402
from atsim.potentials.config._common import ConfigurationException  # noqa: E402


def read_text(text):
    return Configuration().read(io.StringIO(text))


def write_text(tab):
    """bytes/str produced by tab.write on a fresh in-memory file"""
    if tab.target.startswith("excel"):
        fp = io.BytesIO()
    else:
        fp = io.StringIO()
    tab.write(fp)
    return fp.getvalue()


def functions(tab):
    """{label: callable} for every function of a tabulation object"""
    out = {}
    for p in tab.potentials:
        out["pair:%s-%s" % (p.speciesA, p.speciesB)] = p.potentialFunction
    for e in getattr(tab, "eam_potentials", []) or []:
        out["embed:%s" % e.species] = e.embeddingFunction
        d = e.electronDensityFunction
        if isinstance(d, dict):
            for k, f in d.items():
                out["density:%s->%s" % (e.species, k)] = f
        else:
            out["density:%s" % e.species] = d
    for p in getattr(tab, "dipole_potentials", []) or []:
        out["dipole:%s-%s" % (p.speciesA, p.speciesB)] = p.potentialFunction
    for p in getattr(tab, "quadrupole_potentials", []) or []:
        out["quadrupole:%s-%s" % (p.speciesA, p.speciesB)] = p.potentialFunction
    return out


def realnum(x):
    """float(x) for finite real numbers (bool excluded), else None"""
    import math
    import numbers
    if isinstance(x, bool) or not isinstance(x, numbers.Real):
        try:
            import numpy as np
            if isinstance(x, np.generic) and np.isrealobj(x):
                x = float(x)
            else:
                return None
        except Exception:
            return None
    x = float(x)
    return x if math.isfinite(x) else None


def innermost_atsim_frame(exc):
    """'file.py:function' of the innermost frame inside the atsim package"""
    import traceback
    where = "?"
    for fs in traceback.extract_tb(exc.__traceback__):
        if os.sep + "atsim" + os.sep in fs.filename:
            where = "%s:%s" % (os.path.basename(fs.filename), fs.name)
    return where


_CLI_SHIM = """
import sys
sys.argv = ['potable'] + sys.argv[1:]
from atsim.potentials.tools.potable import main
main()
"""


JUNK = b"stale line of an earlier, longer table 0.12345678 9.87654321\n" * 6000


def run_potable_main(args, input_text, outname="out.tab", preexisting=True):
    """potable's own main() called in this process with a patched sys.argv (argument parsing, option glue, output
    file handling and exit status are the real ones; only the interpreter start-up is saved).
    Returns the same dict as run_potable()."""
    import contextlib
    import io
    from atsim.potentials.tools import potable as _potable
    with tempfile.TemporaryDirectory(prefix="verif-main-", dir="/var/tmp") as d:
        inp = os.path.join(d, "model.aspot")
        with open(inp, "wb" if isinstance(input_text, bytes) else "w") as f:
            f.write(input_text)
        out = os.path.join(d, outname) if outname is not None else None
        if out and preexisting:
            # the output path already exists and holds a LONGER file (an earlier, bigger tabulation): it is replaced
            with open(out, "wb") as f:
                f.write(JUNK)
        argv = ["potable", inp] + ([out] if out else []) + list(args)
        old_argv, old_cwd = sys.argv, os.getcwd()
        so, se = io.StringIO(), io.StringIO()
        rc, exc = 0, None
        try:
            sys.argv = argv
            os.chdir(d)
            with contextlib.redirect_stdout(so), contextlib.redirect_stderr(se):
                try:
                    _potable.main()
                except SystemExit as e:
                    rc = e.code if isinstance(e.code, int) else (0 if e.code is None else 1)
                except BaseException as e:     # what the interpreter would turn into a traceback and status 1
                    if isinstance(e, (KeyboardInterrupt, MemoryError)) or type(e).__name__ == "CaseTimeout":
                        raise
                    rc, exc = 1, e
        finally:
            sys.argv = old_argv
            os.chdir(old_cwd)
        data = None
        if out and os.path.exists(out):
            with open(out, "rb") as f:
                data = f.read()
        err = se.getvalue()
        if exc is not None:
            err += "\n%s@%s: %s" % (type(exc).__name__, innermost_atsim_frame(exc), exc)
        return {"rc": rc, "stdout": so.getvalue(), "stderr": err, "out": data}


def run_potable(args, input_text, outname="out.tab", timeout=120, env_extra=None):
    """Run the real potable command line in a child process.
    Returns dict(rc, stdout, stderr, out_bytes or None)."""
    with tempfile.TemporaryDirectory(prefix="verif-cli-", dir="/var/tmp") as d:
        inp = os.path.join(d, "model.aspot")
        with open(inp, "wb" if isinstance(input_text, bytes) else "w") as f:
            f.write(input_text)
        out = os.path.join(d, outname)
        code = bootstrap.repo_python_shim() + _CLI_SHIM
        argv = [sys.executable, "-W", "ignore", "-c", code, inp]
        if outname is not None:
            argv.append(out)
        argv.extend(args)
        env = dict(os.environ)
        env["PYTHONWARNINGS"] = "ignore"
        if env_extra:
            env.update(env_extra)
        p = subprocess.run(argv, stdout=subprocess.PIPE, stderr=subprocess.PIPE, timeout=timeout, env=env, cwd=d)
        data = None
        if os.path.exists(out):
            with open(out, "rb") as f:
                data = f.read()
        return {"rc": p.returncode, "stdout": p.stdout.decode(errors="replace"),
                "stderr": p.stderr.decode(errors="replace"), "out": data}
