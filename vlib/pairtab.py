"""Shared machinery for the pair-table properties (C01, C02, C19 pair targets):
building the same abstract pair model through the API and through potable text,
and reference rows (energy, derivative) on a grid."""
import io
import math

from . import bootstrap, model, render, build_api, libroute
from .num import DomainError

bootstrap.activate()
import atsim.potentials as ap  # noqa: E402


def strip_has(node):
    """potable text cannot express analytic derivatives of custom forms"""
    if isinstance(node, dict):
        return dict((k, strip_has(v)) for k, v in node.items() if k != "has")
    if isinstance(node, list):
        return [strip_has(v) for v in node]
    return node


def api_potentials(m, container="list", wrap=None):
    """Potential objects of the model; `container` chooses how they are handed to the writer: the API documents an
    'iterable containing Potential objects', so a tuple or a one-shot iterator must work like a list"""
    b = build_api.Builder(m["env"])
    pots = []
    for a, bb, pd in m["pair"]:
        f = b.potdef(pd)
        if wrap is not None:
            f = wrap("pair", (a, bb), f)
        if m.get("int_returns"):
            f = build_api.int_returns(f)
        pots.append(ap.Potential(a, bb, f))
    if container == "tuple":
        return tuple(pots)
    if container == "iterator":
        return iter(pots)
    if container == "generator":
        return (p for p in pots)
    return pots


def potable_text(m, target, grid, style=None, extra_tab=None):
    tab = {"target": target}
    tab.update(grid)
    if extra_tab:
        tab.update(extra_tab)
    mm = {"tabulation": tab, "env": strip_has(m["env"]),
          "pair": [(a, b, strip_has(pd)) for a, b, pd in m["pair"]]}
    return render.model_text(mm, style)


def ref_row(ref, pd, r, order=1, rerr=8.0):
    """reference jet of potdef at grid position r (a computed float: rerr ulps of slack)"""
    j, tr = model.evaluate(ref, pd, r, order=order, rerr=rerr)
    for c in j.c:
        if not math.isfinite(c.v) or abs(c.v) > 1e250:
            raise DomainError("non-finite reference")
    return j, tr


def has_numeric(pd, route):
    """does the library differentiate (part of) this definition numerically on this route?"""
    for b in model.walk_simple(pd):
        if b["k"] == "custom" and (route != "api" or b.get("has", 0) == 0):
            return True
    return False


def for_route(pd, route):
    return pd if route == "api" else strip_has(pd)
