"""Abstract potential definition -> callable composed through the *Python API*
of atsim.potentials (potentialforms, plus/product/pow, multi-range forms, spline
classes, table forms)."""
import functools

from . import bootstrap
from .num import Jet
from .model import Ref, Trace

bootstrap.activate()

import atsim.potentials as ap  # noqa: E402
from atsim.potentials import potentialforms as pf  # noqa: E402
from atsim.potentials import tableforms  # noqa: E402
from atsim.potentials import spline as spl  # noqa: E402
from atsim.potentials import Multi_Range_Defn, create_Multi_Range_Potential_Form  # noqa: E402


class Builder(object):
    def __init__(self, env=None):
        self.env = env or {}
        self.ref = Ref(self.env)
        self._tables = {}

    def potdef(self, pd):
        defs = []
        for rg in pd["ranges"]:
            m = rg["m"] or ">"
            s = 0.0 if rg["m"] is None else rg["s"]
            defs.append(Multi_Range_Defn(m, s, self.simple(rg["body"])))
        return create_Multi_Range_Potential_Form(*defs)

    def simple(self, b):
        k = b["k"]
        if k == "form":
            return getattr(pf, b["name"])(*b["p"])
        if k == "custom":
            return self._custom(b)
        if k == "table":
            return self._table(b["name"])
        if k == "mod":
            m = b["m"]
            if m in ("sum", "product", "pow"):
                fn = {"sum": ap.plus, "product": ap.product, "pow": ap.pow}[m]
                return functools.reduce(fn, [self.potdef(a) for a in b["args"]])
            if m == "trans":
                return _trans(self.potdef(b["args"][0]), b["x"])
            if m == "spline":
                return self._spline(b)
        raise ValueError(b)

    def _custom(self, b):
        ref = self.ref
        name, ps = b["name"], list(b["p"])

        def jet(r, n):
            args = [Jet.var(r, n)] + [Jet.const(p, n) for p in ps]
            return ref.custom_call(name, args, Trace())

        def custom_callable(r):
            return jet(r, 0).v
        has = b.get("has", 0)
        if has >= 1:
            custom_callable.deriv = lambda r: jet(r, 1).d(1).v
        if has >= 2:
            custom_callable.deriv2 = lambda r: jet(r, 2).d(2).v
        return custom_callable

    def _table(self, name):
        if name not in self._tables:
            t = [t for t in self.env["table"] if t["name"] == name][0]
            self._tables[name] = tableforms.Cubic_Spline_Table_Form(t["x"], t["y"])
        return self._tables[name]

    def _spline(self, b):
        rgs = b["args"][0]["ranges"]
        start = self.potdef({"ranges": [rgs[0]]})
        end = self.potdef({"ranges": [dict(rgs[2], m=">", s=float("-inf"))]})
        detach, attach = rgs[1]["s"], rgs[2]["s"]
        kw = rgs[1]["body"]
        if kw["name"] == "exp_spline":
            return spl.SplinePotential(start, end, detach, attach)
        return spl.Buck4_SplinePotential(start, end, detach, attach, kw["p"][0])


def _trans(f, X):
    def transformed(r):
        return f(r + X)
    if hasattr(f, "deriv"):
        transformed.deriv = lambda r: f.deriv(r + X)
    if hasattr(f, "deriv2"):
        transformed.deriv2 = lambda r: f.deriv2(r + X)
    return transformed


class Scaled(object):
    """stateful callable k * f(r) whose k is re-assigned between writes (a fitting loop re-parametrising a model)"""

    def __init__(self, f):
        self.f, self.k = f, 1.0

    def __call__(self, r):
        return self.k * self.f(r)


class ScaledD(Scaled):
    def deriv(self, r):
        return self.k * self.f.deriv(r)


def scaled(f):
    return (ScaledD if hasattr(f, "deriv") else Scaled)(f)


def scaled_potdef(pd, k):
    """the definition of k * pd for r >= 0"""
    const = {"ranges": [{"m": ">=", "s": 0.0, "body": {"k": "form", "name": "constant", "p": [k]}}]}
    return {"ranges": [{"m": ">=", "s": 0.0, "body": {"k": "mod", "m": "product", "args": [const, pd]}}]}


def _intify(v):
    try:
        if isinstance(v, float) and v == int(v) and abs(v) < 2.0 ** 53:
            return int(v)
    except (OverflowError, ValueError):
        pass
    return v


def int_returns(f):
    """the same function written the way users write plain Python callables: a Python int wherever the value is a
    whole number ('if r == 0: return 0', 'return 2' on a plateau), floats elsewhere; deriv / deriv2 kept and treated alike"""
    def g(r):
        return _intify(f(r))
    if hasattr(f, "deriv"):
        g.deriv = lambda r: _intify(f.deriv(r))
    if hasattr(f, "deriv2"):
        g.deriv2 = lambda r: _intify(f.deriv2(r))
    return g
