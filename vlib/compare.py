"""Printed-precision comparison of a number read back from a file with a reference EN."""
import math

from .num import EPS, EN

K = 256.0


def unit(fmt, printed):
    """one unit in the last printed place of `printed` under format fmt = ('f', d) | ('e', d)"""
    kind, d = fmt
    if kind == "f":
        return 10.0 ** (-d)
    if printed == 0.0 or not math.isfinite(printed):
        return 10.0 ** (-d) * 1e-300
    return 10.0 ** (math.floor(math.log10(abs(printed))) - d)


def tol(fmt, printed, ref):
    ref = EN.lift(ref)
    return unit(fmt, printed) * 1.0000001 + K * EPS * ref.e + 2.0 * ref.u + 1e-12 * abs(ref.v) + 1e-300


def close(fmt, printed, ref):
    ref = EN.lift(ref)
    if not math.isfinite(printed) or not math.isfinite(ref.v):
        return False
    return abs(printed - ref.v) <= tol(fmt, printed, ref)


def sample_rows(n, limit=40):
    """indices 0..n-1 to compare against the reference: all when n <= limit, else both ends and an even spread"""
    if n <= limit:
        return list(range(n))
    s = set(range(8)) | set(range(n - 8, n))
    step = (n - 1) / 23.0
    s |= set(int(round(k * step)) for k in range(24))
    return sorted(i for i in s if 0 <= i < n)
