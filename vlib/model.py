"""Abstract potential definitions (plain JSON values) and their *reference
semantics*.

potdef  := {"ranges": [ {"m": ">"|">="|None, "s": float|None, "body": simple}, ...]}
           (m None only on the first range = the documented implicit '>0')
simple  := {"k":"form",   "name": <builtin>, "p":[numbers]}          as.NAME p...
         | {"k":"custom", "name": <custom form>, "p":[numbers]}       NAME p...
         | {"k":"table",  "name": <table form>}                       NAME
         | {"k":"mod", "m":"sum"|"product"|"pow", "args":[potdef...]}
         | {"k":"mod", "m":"trans", "args":[potdef], "x": X}
         | {"k":"mod", "m":"spline", "args":[potdef]}   3 ranges, middle body
                 {"k":"splinekw","name":"exp_spline"|"buck4_spline","p":[r_min]?}
env     := {"custom": [ {"name","params":[first,...],"expr": expr} ...]   (DAG order)
            "table":  [ {"name","x":[...],"y":[...],"style":...} ... ]}
expr    := {"o":"num","v":x} | {"o":"var","n":name}
         | {"o":"+"|"-"|"*"|"/","a":expr,"b":expr} | {"o":"neg","a":expr}
         | {"o":"^","a":expr,"p":number}
         | {"o":"call","f":fname,"args":[expr...]}       exprtk builtin
         | {"o":"pymath","f":fname,"args":[expr...]}     pymath.fname(...)
         | {"o":"as","f":builtin,"args":[expr...]}       as.NAME(r, params...)
         | {"o":"custom","f":name,"args":[expr...]}      other custom form
         | {"o":"if","c":cond,"a":expr,"b":expr}
cond    := {"c":"<"|">"|"<="|">=","a":expr,"b":expr} | {"c":"and"|"or","a":cond,"b":cond}
"""
import json
import math

from .num import Jet, EN, DomainError, EPS, _m
from . import forms as F

NUM_H = 1e-6  # step of the library's documented numerical derivative fallback


class Trace(list):
    """records every piecewise decision taken during one evaluation"""


def canon(x):
    return json.dumps(x, sort_keys=True, separators=(",", ":"))


# --------------------------------------------------------------------------
# structural queries
# --------------------------------------------------------------------------

def _numeric_composite(out):
    """A combination of components of which some have no analytic derivative: the library differentiates the
    COMBINED value of those components numerically (plus(plus(f, g), h) with only h analytic takes the central
    difference of f+g), so the rounding of the combination itself (additions, products) enters the difference
    quotient as well, not only the rounding of the leaves."""
    c = list(out.c)
    fact = 1.0
    changed = False
    for k in range(1, len(c)):
        fact *= k
        if c[k].u > 0 and math.isfinite(c[k].u):
            lower = c[k - 1]
            extra = (8.0 * EPS * lower.e * (fact / k) / NUM_H + 4.0 * (lower.u if math.isfinite(lower.u) else 0.0) * (fact / k) / NUM_H) / fact
            if k == 2 and c[1].u > 0:
                # second difference of the combined value
                extra += 16.0 * EPS * (c[0].e + abs(c[0].v)) / (NUM_H * NUM_H) / 2.0
            if k + 2 < len(c):
                # truncation error of the central difference applied to the combination: h^2 |F^(k+2)| / 24 in units
                # of the k-th derivative (Taylor coefficient c[k+2] = F^(k+2) / (k+2)!)
                hi = abs(c[k + 2].v) * fact * (k + 1) * (k + 2)
                extra += (NUM_H * NUM_H * hi / (24.0 if k == 1 else 6.0)) / fact
            c[k] = EN(c[k].v, c[k].e, c[k].u + extra)
            changed = True
    return Jet(c) if changed else out


def walk_simple(pd):
    """yield every simple node in a potdef (pre-order)"""
    for rg in pd["ranges"]:
        b = rg["body"]
        yield b
        if b["k"] == "mod":
            for a in b["args"]:
                for x in walk_simple(a):
                    yield x


def depth(pd):
    d = 0
    for rg in pd["ranges"]:
        b = rg["body"]
        if b["k"] == "mod":
            d = max(d, 1 + max(depth(a) for a in b["args"]))
    return d


def has_numeric_leaf(pd):
    """True when some leaf has no analytic derivative in the library (custom formulas)"""
    return any(b["k"] == "custom" for b in walk_simple(pd))


def modifiers_used(pd):
    return sorted(set(b["m"] for b in walk_simple(pd) if b["k"] == "mod"))


def boundaries(pd, shift=0.0):
    """separations at which the definition switches pieces (range starts, spline
    joins, r_min), mapped through enclosing trans() shifts"""
    out = []
    for rg in pd["ranges"]:
        s = 0.0 if rg["m"] is None else rg["s"]
        if s is not None and s != float("-inf"):
            out.append(s - shift)
        b = rg["body"]
        if b["k"] == "mod":
            sh = shift + (b["x"] if b["m"] == "trans" else 0.0)
            for a in b["args"]:
                out.extend(boundaries(a, sh))
        elif b["k"] == "splinekw" and b["p"]:
            out.append(b["p"][0] - shift)
        elif b["k"] == "form" and b["name"] == "buck4":
            out.extend([x - shift for x in b["p"][3:6]])
    return out


# --------------------------------------------------------------------------
# reference evaluator
# --------------------------------------------------------------------------

def _jconst(x, n):
    return Jet.const(x, n)


def select_range(ranges, r):
    """C08 rule (DESIGN 3.4).  Returns (index or None, alternatives) where
    alternatives is the set of indices that are admissible answers: at r > s
    with both a '>' and a '>=' range sharing the greatest eligible start, either
    is accepted (the statement and the existing test disagree there)."""
    best = None
    for i, rg in enumerate(ranges):
        m = rg["m"] or ">"
        s = 0.0 if rg["m"] is None else rg["s"]
        if r > s or (r == s and m == ">="):
            key = (s, 1 if m == ">" else 0)
            if best is None or key > best[0]:
                best = (key, i)
    if best is None:
        return None, ()
    (s, _), i = best
    alts = [j for j, rg in enumerate(ranges)
            if (0.0 if rg["m"] is None else rg["s"]) == s and
            (r > s or (rg["m"] == ">="))]
    return i, tuple(alts)


class Ref(object):
    def __init__(self, env=None):
        env = env or {}
        self.custom = dict((c["name"], c) for c in env.get("custom", []))
        self.table = dict((t["name"], t) for t in env.get("table", []))
        self._spl = {}
        self._tab = {}

    # -- public ----------------------------------------------------------
    def potdef(self, pd, x, trace=None):
        """value of the potable definition `pd` at Jet x"""
        if trace is None:
            trace = Trace()
        i, alts = select_range(pd["ranges"], x.v)
        trace.append(("mr", i))
        if len(alts) > 1:
            trace.append(("ambiguous", alts))
        if i is None:
            return _jconst(0.0, x.n)
        return self.simple(pd["ranges"][i]["body"], x, trace)

    def simple(self, b, x, trace):
        k = b["k"]
        if k == "form":
            if b["name"] == "buck4":
                return self._buck4(b, x, trace)
            return F.REF[b["name"]](x, *b["p"])
        if k == "custom":
            return self._custom_leaf(b, x, trace)
        if k == "table":
            return self._table(b["name"], x, trace)
        if k == "mod":
            m = b["m"]
            if m == "sum":
                out = self.potdef(b["args"][0], x, trace)
                for a in b["args"][1:]:
                    out = out + self.potdef(a, x, trace)
                return _numeric_composite(out)
            if m == "product":
                out = self.potdef(b["args"][0], x, trace)
                for a in b["args"][1:]:
                    out = out * self.potdef(a, x, trace)
                return _numeric_composite(out)
            if m == "pow":
                a = self.potdef(b["args"][0], x, trace)
                p = self.potdef(b["args"][1], x, trace)
                return _numeric_composite(_jpow(a, p))
            if m == "trans":
                return self.potdef(b["args"][0], x + b["x"], trace)
            if m == "spline":
                return self._spline(b, x, trace)
        raise ValueError("unknown node %r" % (b,))

    # -- custom formulas -------------------------------------------------
    def _custom_leaf(self, b, x, trace):
        """a custom form used as a potential.  From potable text the library has no
        analytic derivative for it (b["has"] absent/0) and falls back to a central
        difference (h=1e-6); Python-API callables may offer deriv (has=1) or deriv and
        deriv2 (has=2).  The reference returns the true derivatives and attaches the
        admissible uncertainty of the documented fallback to the ones obtained numerically."""
        n = x.n
        has = b.get("has", 0)
        if n == 0 or has >= 2:
            return self.custom_call(b["name"], [x] + [_jconst(p, n) for p in b["p"]], trace)
        top = min(4, max(n, 3 + has, n + 2))
        big = Jet(list(x.c) + [EN(0.0)] * (top - n)) if n < top else x
        full = self.custom_call(b["name"], [big] + [_jconst(p, top) for p in b["p"]], trace)
        c = list(full.c[:n + 1])
        inf = float("inf")
        if has == 0:
            c0 = c[0]
            u1 = 8.0 * EPS * c0.e / NUM_H + NUM_H * NUM_H * abs(full.d(3).v) / 24.0 + 4 * c0.u / NUM_H
            u1 += 4.0 * EPS * abs(c[1].v) + 1e-300    # never exactly 0: marks the component as numerically differentiated
            trunc = NUM_H * NUM_H * abs(full.d(3).v) / 24.0
            if trunc > 0.01 * abs(c[1].v) and trunc > 1e3 * 8.0 * EPS * c0.e / NUM_H:
                # the function changes its slope appreciably WITHIN the stencil (sin(1/r^10) at r = 0.3: the phase
                # advances by radians over h): the leading truncation term no longer bounds the error of the
                # fallback and nothing can be predicted about its result
                u1 = inf
            c[1] = EN(c[1].v, c[1].e, c[1].u + u1)
            if n >= 2:
                # a numerical derivative of a numerical derivative (the documented fallback applied twice, h = 1e-6):
                # (f(r+h) - 2 f(r) + f(r-h)) / h^2 resolves f'' to about eps |f| / h^2 ~ 1e-3 |f| only - coarse, but
                # enough to tell whether the component contributes its second derivative at all
                u2 = 16.0 * EPS * (c0.e + abs(c0.v)) / (NUM_H * NUM_H) + NUM_H * NUM_H * abs(full.d(4).v) / 6.0 \
                    + 8.0 * c0.u / (NUM_H * NUM_H) + 1e-300
                c[2] = EN(c[2].v, c[2].e, c[2].u + u2 / 2.0)
            for k in range(3, n + 1):
                c[k] = EN(c[k].v, c[k].e, inf)
        else:
            if n >= 2:
                d1 = full.d(1)
                u2 = 8.0 * EPS * d1.e / NUM_H + NUM_H * NUM_H * abs(full.d(4).v) / 24.0 + 4 * d1.u / NUM_H
                u2 += 4.0 * EPS * abs(full.d(2).v) + 1e-300
                c[2] = EN(c[2].v, c[2].e, c[2].u + u2 / 2.0)
            for k in range(3, n + 1):
                c[k] = EN(c[k].v, c[k].e, inf)
        return Jet(c)

    def custom_call(self, name, args, trace):
        c = self.custom[name]
        if len(args) != len(c["params"]):
            raise ValueError("arity")
        scope = dict(zip(c["params"], args))
        return self.expr(c["expr"], scope, trace)

    def expr(self, e, scope, trace):
        o = e["o"]
        n = next(iter(scope.values())).n
        if o == "num":
            # exprtk's own literal parser is not correctly rounded (1.136 -> 1.1360000000000001):
            # a non-integer literal carries one unit of rounding scale
            v = float(e["v"])
            return _jconst(EN(v, 0.0 if v == int(v) else 2.0 * abs(v)), n)
        if o == "var":
            return scope[e["n"]]
        if o in "+-*/" and len(o) == 1:
            a = self.expr(e["a"], scope, trace)
            b = self.expr(e["b"], scope, trace)
            if o == "+":
                return a + b
            if o == "-":
                return a - b
            if o == "*":
                return a * b
            if b.v == 0.0:
                raise DomainError("division by zero")
            return a / b
        if o == "neg":
            return -self.expr(e["a"], scope, trace)
        if o == "^":
            a = self.expr(e["a"], scope, trace)
            p = float(e["p"])
            y = a.powc(p)
            if p != int(p):
                y = _inflate(y, a.powc(p * (1.0 + _PERT)))
            return y
        if o == "if":
            c = self.cond(e["c"], scope, trace)
            trace.append(("if", c))
            return self.expr(e["a"] if c else e["b"], scope, trace)
        args = [self.expr(a, scope, trace) for a in e["args"]]
        if o == "call":
            return _exprtk_call(e["f"], args, trace)
        if o == "pymath":
            return _pymath_call(e["f"], args, trace)
        if o == "as":
            ps = []
            for a in args[1:]:
                if any(c.v != 0.0 for c in a.c[1:]):
                    raise ValueError("non-constant parameter to as.* inside formula")
                ps.append(a.v)
            y = F.REF[e["f"]](args[0], *ps)
            for i, p in enumerate(ps):
                if p != int(p):      # literal went through exprtk's parser: see "num"
                    q = list(ps)
                    q[i] = p * (1.0 + _PERT)
                    y = _inflate(y, F.REF[e["f"]](args[0], *q))
            return y
        if o == "custom":
            return self.custom_call(e["f"], args, trace)
        if o == "table":
            return self._table(e["f"], args[0], trace)
        raise ValueError("unknown expr %r" % (e,))

    def cond(self, c, scope, trace):
        k = c["c"]
        if k in ("and", "or"):
            a = self.cond(c["a"], scope, trace)
            b = self.cond(c["b"], scope, trace)
            return (a and b) if k == "and" else (a or b)
        a = self.expr(c["a"], scope, trace).v
        b = self.expr(c["b"], scope, trace).v
        return {"<": a < b, ">": a > b, "<=": a <= b, ">=": a >= b}[k]

    # -- tables ----------------------------------------------------------
    def _table_obj(self, name):
        if name not in self._tab:
            from scipy.interpolate import InterpolatedUnivariateSpline
            t = self.table[name]
            self._tab[name] = (InterpolatedUnivariateSpline(t["x"], t["y"], k=3),
                               min(t["x"]), max(t["x"]),
                               max(abs(v) for v in t["y"]))
        return self._tab[name]

    def _table(self, name, x, trace):
        spl, lo, hi, scale = self._table_obj(name)
        r = x.v
        inside = lo <= r <= hi
        trace.append(("table", inside))
        if not inside:
            return _jconst(0.0, x.n)
        d = spl.derivatives(r)
        # Taylor coefficients in r, composed with the inner jet x(t)
        esc = 64.0 * scale
        co = [EN(float(d[0]), esc), EN(float(d[1]), esc / max(hi - lo, 1e-300) * 16),
              EN(float(d[2]) / 2.0, esc), EN(float(d[3]) / 6.0, esc)]
        dx = Jet([EN(0.0)] + list(x.c[1:]))
        out = _jconst(0.0, x.n)
        out.c[0] = co[0]
        pw = Jet.const(1.0, x.n)
        for k in range(1, min(x.n, 3) + 1):      # a cubic: derivatives beyond the third vanish inside a knot interval
            pw = pw * dx
            out = out + pw * co[k]
        return out

    # -- splines ---------------------------------------------------------
    def _buck4(self, b, x, trace):
        A, rho, C, rd, rm, ra = b["p"]
        node = {"k": "mod", "m": "spline", "args": [{"ranges": [
            {"m": ">", "s": float("-inf"), "body": {"k": "form", "name": "bornmayer", "p": [A, rho]}},
            {"m": ">", "s": rd, "body": {"k": "splinekw", "name": "buck4_spline", "p": [rm]}},
            {"m": ">", "s": ra, "body": {"k": "form", "name": "buck", "p": [0.0, 1.0, C]}}]}]}
        return self._spline(node, x, trace)

    def spline_parts(self, b):
        key = canon(b)
        if key in self._spl:
            return self._spl[key]
        import numpy as np
        rgs = b["args"][0]["ranges"]
        assert len(rgs) == 3
        start_pd = {"ranges": [rgs[0]]}
        end_pd = {"ranges": [dict(rgs[2], m=">", s=float("-inf"))]}
        sx = rgs[1]["s"]
        ex = rgs[2]["s"]
        kw = rgs[1]["body"]
        js = self.potdef(start_pd, Jet.var(sx, 2))
        je = self.potdef(end_pd, Jet.var(ex, 2))
        sy, sd, sdd = js.d(0).v, js.d(1).v, js.d(2).v
        ey, ed, edd = je.d(0).v, je.d(1).v, je.d(2).v
        # relative rounding scale of the right-hand side (end-potential values/derivatives may themselves be
        # ill-conditioned, e.g. Tang-Toennies at short range); it is amplified by the solve like any other error
        relrhs = 1.0
        for c in list(js.c) + list(je.c):
            if c.v != 0.0:
                relrhs = max(relrhs, c.e / abs(c.v))
        if kw["name"] == "exp_spline":
            inter = 0.0
            if sy <= 0.0 or ey <= 0.0:
                inter = 1.0 - min(sy, ey)
                sy += inter
                ey += inter
                inter = -inter
            A = np.array([[1.0, sx, sx**2, sx**3, sx**4, sx**5],
                          [1.0, ex, ex**2, ex**3, ex**4, ex**5],
                          [0.0, 1.0, 2*sx, 3*sx**2, 4*sx**3, 5*sx**4],
                          [0.0, 1.0, 2*ex, 3*ex**2, 4*ex**3, 5*ex**4],
                          [0.0, 0.0, 2.0, 6*sx, 12*sx**2, 20*sx**3],
                          [0.0, 0.0, 2.0, 6*ex, 12*ex**2, 20*ex**3]])
            # log-space constraints: ln V, V'/V, V''/V - (V'/V)^2
            B = np.array([math.log(sy), math.log(ey), sd/sy, ed/ey,
                          sdd/sy - (sd/sy)**2, edd/ey - (ed/ey)**2])
            co = np.linalg.solve(A, B)
            cond = float(np.linalg.cond(A))
            parts = ("exp", sx, ex, [float(c) for c in co], inter, cond * relrhs, start_pd, end_pd)
        else:
            rm = kw["p"][0]
            M = np.zeros((10, 10))
            def p5(r, d):
                if d == 0:
                    return [1, r, r**2, r**3, r**4, r**5]
                if d == 1:
                    return [0, 1, 2*r, 3*r**2, 4*r**3, 5*r**4]
                return [0, 0, 2, 6*r, 12*r**2, 20*r**3]
            def p3(r, d):
                if d == 0:
                    return [1, r, r**2, r**3]
                if d == 1:
                    return [0, 1, 2*r, 3*r**2]
                return [0, 0, 2, 6*r]
            for d in range(3):
                M[d, :6] = p5(sx, d)
            M[3, :6] = p5(rm, 1)                      # stationary point at r_min
            for d in range(3):                         # C2 across r_min
                M[4 + d, :6] = p5(rm, d)
                M[4 + d, 6:] = [-v for v in p3(rm, d)]
            for d in range(3):
                M[7 + d, 6:] = p3(ex, d)
            V = np.array([sy, sd, sdd, 0, 0, 0, 0, ey, ed, edd], dtype=float)
            co = np.linalg.solve(M, V)
            cond = float(np.linalg.cond(M))
            parts = ("b4", sx, ex, [float(c) for c in co], rm, cond * relrhs, start_pd, end_pd)
        self._spl[key] = parts
        return parts

    def _spline(self, b, x, trace):
        kind, sx, ex, co, extra, cond, start_pd, end_pd = self.spline_parts(b)
        r = x.v
        if r <= sx:
            trace.append(("spl", 0))
            return self.potdef(start_pd, x, trace)
        if r >= ex:
            trace.append(("spl", 2))
            return self.potdef(end_pd, x, trace)
        amp = 4.0 * cond
        if kind == "exp":
            trace.append(("spl", 1))
            p = _poly_en(co, x, amp)
            if 256.0 * EPS * p.c[0].e > 0.05:
                # the exponent itself is uncertain by more than a few per cent: first-order error propagation
                # through exp() is meaningless there - the spline is outside the well-conditioned range
                raise DomainError("ill-conditioned exponential spline")
            return p.exp() + extra
        rm = extra
        if r < rm:
            trace.append(("spl", 1))
            return _poly_en(co[:6], x, amp)
        trace.append(("spl", 1.5))
        return _poly_en(co[6:], x, amp)


_PERT = 2.0 ** -30


def _inflate(y, y2):
    """add to the rounding scale of jet y its sensitivity to a relative parameter
    perturbation of _PERT (y2 = the perturbed evaluation), for 2 ulp of parameter error"""
    out = []
    for a, b in zip(y.c, y2.c):
        out.append(EN(a.v, a.e + 2.0 * abs(b.v - a.v) / _PERT, a.u))
    return Jet(out)


def _poly_en(co, x, amp):
    out = Jet.const(EN(co[-1], abs(co[-1]) * amp), x.n)
    for c in reversed(co[:-1]):
        out = out * x + EN(c, abs(c) * amp)
    return out


def _jpow(a, p):
    """a(r) ** b(r).  For a positive base the general form exp(b log a) is used even when the exponent is
    constant: the library differentiates pow() with the general product/chain formula, whose terms cancel
    (pow(r, 1) has deriv2 = 1/r - 1/r), so the rounding scale must be that of the general formula and not of the
    better conditioned special case."""
    const_exp = all(c.v == 0.0 for c in p.c[1:]) and p.c[0].e == 0.0 and p.c[0].u == 0.0
    if a.v > 0.0:
        y = (p * a.log()).exp()
        if const_exp:
            # keep the (more accurate) directly computed value, with the general formula's scales
            direct = a.powc(p.c[0].v)
            y = Jet([EN(d.v, max(d.e, g.e), max(d.u, g.u)) for d, g in zip(direct.c, y.c)])
        return y
    if const_exp and p.v == int(p.v):
        return a.powc(p.v)
    raise DomainError("non-positive base with varying or fractional exponent")


def _piecewise_const(v, n):
    return Jet.const(float(v), n)


def _exprtk_call(f, args, trace):
    a = args[0]
    if f == "exp":
        return a.exp()
    if f == "log":
        return a.log()
    if f == "sqrt":
        return a.sqrt()
    if f == "abs":
        trace.append(("abs", a.v >= 0))
        return a.abs()
    if f == "sin":
        return a.sin()
    if f == "cos":
        return a.cos()
    if f == "tanh":
        return a.tanh()
    if f == "erf":
        return a.erf()
    if f == "erfc":
        return a.erfc()
    if f in ("min", "max"):
        b = args[1]
        pick_a = (a.v <= b.v) if f == "min" else (a.v >= b.v)
        trace.append((f, pick_a))
        return a if pick_a else b
    if f == "floor":
        trace.append(("floor", math.floor(a.v)))
        return _piecewise_const(math.floor(a.v), a.n)
    raise ValueError("unknown exprtk function " + f)


def _pymath_call(f, args, trace):
    a = args[0]
    if f == "exp":
        return a.exp()
    if f == "sqrt":
        return a.sqrt()
    if f == "log":
        if len(args) == 2:
            return a.log() / args[1].log()
        return a.log()
    if f == "log10":
        return a.log() / math.log(10.0)
    if f == "log2":
        return a.log() / math.log(2.0)
    if f == "log1p":
        return (a + 1.0).log()
    if f == "pow":
        return _jpow(a, args[1])
    if f == "sin":
        return a.sin()
    if f == "cos":
        return a.cos()
    if f == "tanh":
        return a.tanh()
    if f == "sinh":
        return (a.exp() - (-a).exp()) / 2.0
    if f == "cosh":
        return (a.exp() + (-a).exp()) / 2.0
    if f == "atan":
        g0 = 1.0 / (1.0 + a.v * a.v)
        return a._compose(EN(math.atan(a.v), abs(math.atan(a.v)) + _m(g0, a.c[0].e), _m(g0, a.c[0].u)), 1.0 / (a * a + 1.0))
    if f == "hypot":
        b = args[1]
        # scaled like math.hypot: squaring 1e-170 would underflow to zero
        sc = max(abs(a.v), abs(b.v))
        if sc == 0.0 or not math.isfinite(sc):
            return (a * a + b * b).sqrt()
        sc = 2.0 ** math.frexp(sc)[1]
        x, y = a / sc, b / sc
        return (x * x + y * y).sqrt() * sc
    if f == "fabs":
        trace.append(("abs", a.v >= 0))
        return a.abs()
    if f == "fsum":
        out = a
        for b in args[1:]:
            out = out + b
        return out
    if f in ("floor", "ceil", "trunc"):
        v = getattr(math, f)(a.v)
        trace.append((f, v))
        return _piecewise_const(v, a.n)
    if f == "factorial":
        if any(c.v != 0.0 for c in a.c[1:]) or a.v != int(a.v) or a.v < 0:
            raise ValueError("factorial of non-constant")
        return Jet.const(float(math.factorial(int(a.v))), a.n)
    if f == "gcd":
        b = args[1]
        return Jet.const(float(math.gcd(int(a.v), int(b.v))), a.n)
    if f == "ldexp":
        b = args[1]
        return a * float(2.0 ** int(b.v))
    if f == "degrees":
        return a * (180.0 / math.pi)
    if f == "radians":
        return a * (math.pi / 180.0)
    if f == "copysign":
        b = args[1]
        neg = math.copysign(1.0, b.v) < 0
        trace.append(("copysign", neg, a.v >= 0))
        aa = a.abs()
        return -aa if neg else aa
    if f == "fmod":
        b = args[1]
        # the C remainder is exact for the two floats it is given; a - b*trunc(a/b) is not (18 - 10*1.8 = 0 where
        # fmod(18, 1.8) = 1.7999999999999996): take the value from math.fmod and the slope from a - q*b
        fv = math.fmod(a.v, b.v)
        q = round((a.v - fv) / b.v)
        if a.v != 0.0 and min(abs(fv), abs(abs(b.v) - abs(fv))) <= 1e-9 * abs(b.v) + 64 * EPS * (a.c[0].e + b.c[0].e * abs(q)):
            # at (or within rounding of) a multiple of the divisor the remainder jumps by |b|
            trace.append(("ambiguous", "fmod at a multiple of the divisor"))
        trace.append(("fmod", q))
        out = a - b * float(q)
        out.c[0] = EN(fv, out.c[0].e, out.c[0].u)
        return out
    raise ValueError("unknown pymath function " + f)


# --------------------------------------------------------------------------
# convenience
# --------------------------------------------------------------------------

def evaluate(ref, pd, r, order=0, rerr=0.0):
    """(Jet, trace) of potdef at separation r.  rerr = rounding scale of r itself
    (in units of eps*|r|) when r is a computed grid position."""
    tr = Trace()
    if order >= 1 and order < 4 and has_numeric_leaf(pd):
        # numerically differentiated components: the truncation error of the fallback on a COMBINATION of them needs
        # the combination's own higher derivatives, so the jets are carried two orders further and cut at the end
        x = Jet.var(r, min(4, order + 2), e=rerr * abs(r))
        out = ref.potdef(pd, x, tr)
        return Jet(list(out.c[:order + 1])), tr
    x = Jet.var(r, order, e=rerr * abs(r))
    return ref.potdef(pd, x, tr), tr


def on_boundary(ref, pd, r):
    """True when a piecewise decision of the definition flips within one ulp of r: r sits EXACTLY on a boundary
    (a range start, a spline join, ...).  Such a position is not in doubt when the float itself is - which side it
    belongs to is decided by the definition ('>=s' includes s, '>s' does not)."""
    return not same_piece(ref, pd, r, 0.0, ulp=True)


def same_piece(ref, pd, r, delta, ulp=False):
    """True when the definition takes the same piecewise decisions at r-delta, r, r+delta"""
    lo, hi = (math.nextafter(r, -math.inf), math.nextafter(r, math.inf)) if ulp else (r - delta, r + delta)
    try:
        _, t0 = evaluate(ref, pd, r)
        _, t1 = evaluate(ref, pd, lo)
        _, t2 = evaluate(ref, pd, hi)
    except DomainError:
        return False
    return list(t0) == list(t1) == list(t2)
