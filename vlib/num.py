"""Reference arithmetic, independent of the library under test.

EN   -- a float together with a first-order *rounding-error scale* `e`: the value
        computed by any reasonable floating point evaluation of the same formula
        is expected within  ~eps * e  of the exact value (e accumulates the
        magnitudes of intermediate terms, so cancellation is accounted for).
Jet  -- truncated Taylor series (coefficients c_k = f^(k)/k!) over EN, orders
        0..3, giving value and exact-to-rounding derivatives of a reference
        formula from one definition.
"""
import math

EPS = 2.220446049250313e-16
_SQRTPI2 = 2.0 / math.sqrt(math.pi)


class DomainError(Exception):
    """reference evaluation left the domain on which it is defined/finite"""


def _m(a, b):
    """a*b with 0*inf = 0 (an exactly-zero factor annihilates an unbounded uncertainty)"""
    if a == 0.0 or b == 0.0:
        return 0.0
    return a * b


class EN(object):
    __slots__ = ("v", "e", "u")

    def __init__(self, v, e=0.0, u=0.0):
        self.v = float(v)
        self.e = float(e)   # rounding-error scale (units of eps)
        self.u = float(u)   # absolute method uncertainty (e.g. of a numerical derivative)

    @staticmethod
    def lift(x):
        if isinstance(x, EN):
            return x
        return EN(x, 0.0)

    def __repr__(self):
        return "EN(%r, e=%.3g, u=%.3g)" % (self.v, self.e, self.u)

    def __neg__(self):
        return EN(-self.v, self.e, self.u)

    def __add__(self, o):
        o = EN.lift(o)
        v = self.v + o.v
        return EN(v, self.e + o.e + abs(v), self.u + o.u)

    __radd__ = __add__

    def __sub__(self, o):
        o = EN.lift(o)
        v = self.v - o.v
        return EN(v, self.e + o.e + abs(v), self.u + o.u)

    def __rsub__(self, o):
        return EN.lift(o) - self

    def __mul__(self, o):
        o = EN.lift(o)
        v = self.v * o.v
        return EN(v, _m(abs(self.v), o.e) + _m(abs(o.v), self.e) + abs(v),
                  _m(abs(self.v), o.u) + _m(abs(o.v), self.u))

    __rmul__ = __mul__

    def __truediv__(self, o):
        o = EN.lift(o)
        if o.v == 0.0:
            raise DomainError("division by zero")
        v = self.v / o.v
        av = abs(o.v)        # divide twice: o.v*o.v underflows for |o.v| ~ 1e-170
        return EN(v, self.e / av + _m(abs(self.v), o.e) / av / av + abs(v),
                  self.u / av + _m(abs(self.v), o.u) / av / av)

    def __rtruediv__(self, o):
        return EN.lift(o) / self

    def exp(self):
        try:
            v = math.exp(self.v)
        except OverflowError:
            raise DomainError("exp overflow")
        return EN(v, _m(v, self.e) + v, _m(v, self.u))

    def log(self):
        if self.v <= 0.0:
            raise DomainError("log of non-positive")
        v = math.log(self.v)
        return EN(v, self.e / self.v + abs(v), self.u / self.v)

    def sqrt(self):
        if self.v < 0.0:
            raise DomainError("sqrt of negative")
        v = math.sqrt(self.v)
        if v == 0.0:
            return EN(0.0, math.sqrt(self.e) if self.e > 0 else 0.0, math.sqrt(self.u))
        return EN(v, self.e / (2.0 * v) + v, self.u / (2.0 * v))

    def powc(self, p):
        """self ** p for a real constant p"""
        try:
            if self.v == 0.0:
                if p > 0:
                    return EN(0.0, 0.0)
                if p == 0:
                    return EN(1.0, 0.0)
                raise DomainError("0 ** negative")
            if self.v < 0.0 and p != int(p):
                raise DomainError("negative ** fractional")
            v = self.v ** p
        except OverflowError:
            raise DomainError("pow overflow")
        if isinstance(v, complex):
            raise DomainError("complex pow")
        g = abs(p) * abs(v) / abs(self.v)
        return EN(v, _m(g, self.e) + abs(v), _m(g, self.u))

    def sin(self):
        v = math.sin(self.v)
        g = abs(math.cos(self.v))
        return EN(v, _m(g, self.e) + abs(v), _m(g, self.u))

    def cos(self):
        v = math.cos(self.v)
        g = abs(math.sin(self.v))
        return EN(v, _m(g, self.e) + abs(v), _m(g, self.u))

    def erf(self):
        v = math.erf(self.v)
        g = _SQRTPI2 * math.exp(-self.v * self.v)
        return EN(v, _m(g, self.e) + abs(v), _m(g, self.u))

    def erfc(self):
        # the C library's erfc (what exprtk calls): accurate in the tail, where 1 - erf(x) has cancelled to 0
        v = math.erfc(self.v)
        g = _SQRTPI2 * math.exp(-self.v * self.v)
        return EN(v, _m(g, self.e) + abs(v), _m(g, self.u))

    def tanh(self):
        v = math.tanh(self.v)
        return EN(v, _m(1 - v * v, self.e) + abs(v), _m(1 - v * v, self.u))


def _c(x):
    return EN.lift(x)


class Jet(object):
    """Truncated Taylor series sum c[k] t^k, k = 0..n, over EN."""
    __slots__ = ("c",)

    def __init__(self, c):
        self.c = c

    @property
    def n(self):
        return len(self.c) - 1

    @staticmethod
    def const(x, n):
        return Jet([_c(x)] + [EN(0.0)] * n)

    @staticmethod
    def var(x, n, e=0.0):
        c = [EN(x, e)]
        if n >= 1:
            c.append(EN(1.0))
        c.extend([EN(0.0)] * (n - 1))
        return Jet(c)

    def _lift(self, o):
        if isinstance(o, Jet):
            return o
        return Jet.const(o, self.n)

    # value / derivatives ------------------------------------------------
    def d(self, k):
        """k-th derivative as EN"""
        f = (1.0, 1.0, 2.0, 6.0, 24.0, 120.0)[k]
        c = self.c[k]
        return EN(c.v * f, _m(c.e, f), _m(c.u, f))

    @property
    def v(self):
        return self.c[0].v

    # arithmetic ---------------------------------------------------------
    def __neg__(self):
        return Jet([-x for x in self.c])

    def __add__(self, o):
        o = self._lift(o)
        return Jet([a + b for a, b in zip(self.c, o.c)])

    __radd__ = __add__

    def __sub__(self, o):
        o = self._lift(o)
        return Jet([a - b for a, b in zip(self.c, o.c)])

    def __rsub__(self, o):
        return self._lift(o) - self

    def __mul__(self, o):
        if not isinstance(o, Jet):
            o = _c(o)
            return Jet([a * o for a in self.c])
        a, b = self.c, o.c
        out = []
        for k in range(len(a)):
            s = a[0] * b[k]
            for j in range(1, k + 1):
                s = s + a[j] * b[k - j]
            out.append(s)
        return Jet(out)

    __rmul__ = __mul__

    def __truediv__(self, o):
        if not isinstance(o, Jet):
            o = _c(o)
            return Jet([a / o for a in self.c])
        a, b = self.c, o.c
        q = []
        for k in range(len(a)):
            s = a[k]
            for j in range(1, k + 1):
                s = s - b[j] * q[k - j]
            q.append(s / b[0])
        return Jet(q)

    def __rtruediv__(self, o):
        return self._lift(o) / self

    def _compose(self, f0, g):
        """F(a) with F' = g (a jet in t already composed): F_k = 1/k sum j a_j g_{k-j}"""
        a = self.c
        out = [f0]
        for k in range(1, len(a)):
            s = None
            for j in range(1, k + 1):
                t = a[j] * g.c[k - j] * float(j)
                s = t if s is None else s + t
            out.append(s / float(k))
        return Jet(out)

    def exp(self):
        a = self.c
        e = [a[0].exp()]
        for k in range(1, len(a)):
            s = None
            for j in range(1, k + 1):
                t = a[j] * e[k - j] * float(j)
                s = t if s is None else s + t
            e.append(s / float(k))
        return Jet(e)

    def log(self):
        a = self.c
        l = [a[0].log()]
        for k in range(1, len(a)):
            s = a[k]
            for j in range(1, k):
                s = s - l[j] * a[k - j] * (float(j) / float(k))
            l.append(s / a[0])
        return Jet(l)

    def sqrt(self):
        a = self.c
        s0 = a[0].sqrt()
        if s0.v == 0.0 and len(a) > 1:
            raise DomainError("sqrt jet at 0")
        s = [s0]
        for k in range(1, len(a)):
            t = a[k]
            for j in range(1, k):
                t = t - s[j] * s[k - j]
            s.append(t / (s0 * 2.0))
        return Jet(s)

    def powc(self, p):
        """self ** p, p a real constant"""
        p = float(p)
        a = self.c
        if p == int(p) and 0 <= p <= 16:
            n = int(p)
            if n == 0:
                return Jet.const(1.0, self.n)
            out = self
            for _ in range(n - 1):
                out = out * self
            return out
        if a[0].v == 0.0:
            if self.n == 0:
                return Jet([a[0].powc(p)])
            raise DomainError("non-polynomial power jet at 0")
        y = [a[0].powc(p)]
        for k in range(1, len(a)):
            s = None
            for j in range(1, k + 1):
                t = a[j] * y[k - j] * (p * j - (k - j))
                s = t if s is None else s + t
            y.append(s / (a[0] * float(k)))
        return Jet(y)

    def pow(self, o):
        if not isinstance(o, Jet):
            return self.powc(o)
        # constant exponent jet?
        if all(x.v == 0.0 for x in o.c[1:]) and o.c[0].e == 0.0:
            return self.powc(o.c[0].v)
        return (o * self.log()).exp()

    def sincos(self):
        a = self.c
        s = [a[0].sin()]
        c = [a[0].cos()]
        for k in range(1, len(a)):
            ss = None
            cc = None
            for j in range(1, k + 1):
                t1 = a[j] * c[k - j] * float(j)
                t2 = a[j] * s[k - j] * float(j)
                ss = t1 if ss is None else ss + t1
                cc = t2 if cc is None else cc + t2
            s.append(ss / float(k))
            c.append(-(cc / float(k)))
        return Jet(s), Jet(c)

    def sin(self):
        return self.sincos()[0]

    def cos(self):
        return self.sincos()[1]

    def erf(self):
        g = (-(self * self)).exp() * _SQRTPI2
        return self._compose(self.c[0].erf(), g)

    def erfc(self):
        g = (-(self * self)).exp() * (-_SQRTPI2)
        return self._compose(self.c[0].erfc(), g)

    def tanh(self):
        # T' = (1 - T^2) a' solved coefficient by coefficient (no exp: stays finite when tanh saturates)
        a = self.c
        T = [a[0].tanh()]
        for k in range(1, len(a)):
            # G = 1 - T*T up to order k-1
            G = []
            for m in range(k):
                s = None
                for i in range(m + 1):
                    t = T[i] * T[m - i]
                    s = t if s is None else s + t
                G.append((EN(1.0) - s) if m == 0 else -s)
            acc = None
            for j in range(1, k + 1):
                t = a[j] * G[k - j] * float(j)
                acc = t if acc is None else acc + t
            T.append(acc / float(k))
        return Jet(T)

    def abs(self):
        return self if self.c[0].v >= 0 else -self


def var(x, order=0, e=0.0):
    return Jet.var(x, order, e)


def const(x, order=0):
    return Jet.const(x, order)
