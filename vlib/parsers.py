"""Independent readers for every output format (none shares code with the writers).

Each reader returns a plain structure and raises FormatError when the text is
not a well-formed file of that format (wrong counts, trailing data, bad fields).
"""
import io
import re


class FormatError(Exception):
    pass


def _f(tok, what="number"):
    try:
        return float(tok)
    except ValueError:
        raise FormatError("bad %s %r" % (what, tok))


def _i(tok, what="integer"):
    if not re.fullmatch(r"[+-]?\d+", tok):
        raise FormatError("bad %s %r" % (what, tok))
    return int(tok)


# --------------------------------------------------------------------------
def lammps_table(text):
    """LAMMPS pair_style table file -> [ {title, N, lo, hi, rows:[(i, r, E, F)], raw_rows:[str]} ]"""
    lines = text.split("\n")
    if lines and lines[-1] == "":
        lines = lines[:-1]
    blocks = []
    i = 0
    n = len(lines)
    while i < n:
        if lines[i].strip() == "":
            i += 1
            continue
        title = lines[i]
        i += 1
        if i >= n:
            raise FormatError("block %r has no header" % title)
        m = re.fullmatch(r"N (\d+) R (\S+) (\S+)", lines[i].strip())
        if not m:
            raise FormatError("block %r: bad parameter line %r" % (title, lines[i]))
        N, lo, hi = int(m.group(1)), _f(m.group(2)), _f(m.group(3))
        i += 1
        if i >= n or lines[i].strip() != "":
            raise FormatError("block %r: parameter line not followed by a blank line" % title)
        i += 1
        rows, raw = [], []
        while i < n and lines[i].strip() != "":
            t = lines[i].split()
            if len(t) != 4:
                raise FormatError("block %r: row %r does not have 4 fields" % (title, lines[i]))
            rows.append((_i(t[0], "row index"), _f(t[1]), _f(t[2]), _f(t[3])))
            raw.append(lines[i])
            i += 1
        blocks.append({"title": title, "N": N, "lo": lo, "hi": hi, "rows": rows, "raw": raw})
    return blocks


# --------------------------------------------------------------------------
def dlpoly_table(text):
    """DL_POLY TABLE, layout strict.
    -> {delpot, cutpot, ngrid, blocks:[{a, b, energies:[...], forces:[...]}]}"""
    lines = text.split("\n")
    if lines[-1] != "":
        raise FormatError("file does not end with a newline")
    lines = lines[:-1]
    if len(lines) < 2:
        raise FormatError("too short")
    hdr = lines[1]
    if len(hdr) != 40:
        raise FormatError("header record is %d characters, expected 15+15+10" % len(hdr))
    delpot, cutpot, ngrid = _f(hdr[0:15].strip()), _f(hdr[15:30].strip()), _i(hdr[30:40].strip())
    if not re.fullmatch(r" ?-?\d\.\d{8}e[+-]\d\d", hdr[0:15]) or not re.fullmatch(r" ?-?\d\.\d{8}e[+-]\d\d", hdr[15:30]):
        raise FormatError("header reals are not %%15.8e fields: %r" % hdr)
    if ngrid % 4 != 0 or ngrid <= 0:
        raise FormatError("ngrid %d not a positive multiple of four" % ngrid)
    per = ngrid // 4
    blocks = []
    i = 2
    while i < len(lines):
        h = lines[i]
        if len(h) != 16:
            raise FormatError("potential header %r is not two 8-character fields" % h)
        a, b = h[0:8], h[8:16]
        if a != a.strip().rjust(8) or b != b.strip().rjust(8) or not a.strip() or not b.strip():
            raise FormatError("potential header %r fields are not right-justified labels" % h)
        i += 1
        vals = []
        for k in range(2 * per):
            if i >= len(lines):
                raise FormatError("block %s-%s is truncated (%d of %d records)" % (a.strip(), b.strip(), k, 2 * per))
            rec = lines[i]
            if len(rec) != 60:
                raise FormatError("record %r is %d characters, expected four 15-character fields" % (rec, len(rec)))
            for c in range(4):
                fld = rec[15 * c:15 * c + 15]
                # seven decimals and a two-digit exponent, or six decimals and a three-digit exponent: 15 characters
                if not re.fullmatch(r" [ -]\d\.\d{7}e[+-]\d\d", fld) and not re.fullmatch(r" [ -]\d\.\d{6}e[+-]\d\d\d", fld) \
                        and not re.fullmatch(r" +-?(inf|nan)", fld):
                    raise FormatError("field %r is not a 15-character ' %% 14.7e' field" % fld)
                vals.append(_f(fld.strip()))
            i += 1
        blocks.append({"a": a.strip(), "b": b.strip(), "energies": vals[:ngrid], "forces": vals[ngrid:]})
    return {"title": lines[0], "delpot": delpot, "cutpot": cutpot, "ngrid": ngrid, "blocks": blocks}


# --------------------------------------------------------------------------
class _Tok(object):
    def __init__(self, text):
        self.t = text.split()
        self.i = 0

    def next(self, what="token"):
        if self.i >= len(self.t):
            raise FormatError("unexpected end of file reading %s" % what)
        self.i += 1
        return self.t[self.i - 1]

    def floats(self, n, what):
        out = []
        for _ in range(n):
            out.append(_f(self.next(what), what))
        return out

    def done(self):
        return self.i >= len(self.t)

    def rest(self):
        return self.t[self.i:]


def setfl(text, fs=False, adp=False):
    """DYNAMO setfl (eam/alloy), eam/fs and adp.
    -> {comments, elements:[names], nrho, drho, nr, dr, cutoff,
        blocks:{name:{Z, mass, a, lattice, embed:[nrho], density:[nr] | {other:[nr]}}},
        pairs:{(i,j):[nr]} (i>=j header order), dipole/quadrupole likewise for adp}"""
    lines = text.split("\n")
    if len(lines) < 5:
        raise FormatError("too short")
    comments = lines[:3]
    t4 = lines[3].split()
    if not t4:
        raise FormatError("empty element line")
    nel = _i(t4[0], "element count")
    names = t4[1:]
    if len(names) != nel:
        raise FormatError("element line declares %d elements but names %r" % (nel, names))
    if len(set(names)) != len(names):
        raise FormatError("element named twice in header: %r" % names)
    t5 = lines[4].split()
    if len(t5) != 5:
        raise FormatError("grid line %r does not have 5 fields" % lines[4])
    nrho, drho, nr, dr, cutoff = _i(t5[0]), _f(t5[1]), _i(t5[2]), _f(t5[3]), _f(t5[4])
    tk = _Tok("\n".join(lines[5:]))
    blocks = {}
    for nm in names:
        Z = _i(tk.next("atomic number"), "atomic number")
        mass = _f(tk.next("mass"))
        a = _f(tk.next("lattice constant"))
        lat = tk.next("lattice type")
        emb = tk.floats(nrho, "embedding value")
        if fs:
            dens = {}
            for other in names:
                dens[other] = tk.floats(nr, "density value")
        else:
            dens = tk.floats(nr, "density value")
        blocks[nm] = {"Z": Z, "mass": mass, "a": a, "lattice": lat, "embed": emb, "density": dens}

    def tri(what):
        out = {}
        for i in range(nel):
            for j in range(i + 1):
                out[(names[i], names[j])] = tk.floats(nr, what)
        return out
    res = {"comments": comments, "elements": names, "nrho": nrho, "drho": drho, "nr": nr, "dr": dr,
           "cutoff": cutoff, "blocks": blocks, "pairs": tri("pair value")}
    if adp:
        res["dipole"] = tri("dipole value")
        res["quadrupole"] = tri("quadrupole value")
    if not tk.done():
        raise FormatError("%d unexpected trailing tokens, first %r" % (len(tk.rest()), tk.rest()[:3]))
    return res


# --------------------------------------------------------------------------
def tabeam(text):
    """DL_POLY TABEAM -> {title, declared, blocks:[{kind, species:[..], n, start, end, values}]}"""
    lines = text.split("\n")
    if len(lines) < 2:
        raise FormatError("too short")
    title = lines[0]
    declared = _i(lines[1].strip(), "function count")
    blocks = []
    i = 2
    while i < len(lines):
        if lines[i].strip() == "":
            i += 1
            continue
        t = lines[i].split()
        kind = t[0]
        if kind not in ("pair", "embe", "dens"):
            raise FormatError("unexpected line %r where a block header was expected" % lines[i])
        if len(t) < 5:
            raise FormatError("short block header %r" % lines[i])
        n, start, end = _i(t[-3], "point count"), _f(t[-2]), _f(t[-1])
        species = t[1:-3]
        i += 1
        vals = []
        while len(vals) < n:
            if i >= len(lines):
                raise FormatError("%s %s block truncated: %d of %d values" % (kind, species, len(vals), n))
            row = lines[i].split()
            if not row:
                raise FormatError("blank line inside %s %s block" % (kind, species))
            if row[0] in ("pair", "embe", "dens"):
                raise FormatError("%s %s block has %d values, header says %d" % (kind, species, len(vals), n))
            if len(row) > 4:
                raise FormatError("more than four values on a line: %r" % lines[i])
            vals.extend(_f(x) for x in row)
            i += 1
        if len(vals) != n:
            raise FormatError("%s %s block has %d values, header says %d" % (kind, species, len(vals), n))
        blocks.append({"kind": kind, "species": species, "n": n, "start": start, "end": end, "values": vals,
                       "start_tok": t[-2], "end_tok": t[-1]})
    return {"title": title, "declared": declared, "blocks": blocks}


# --------------------------------------------------------------------------
def funcfl(text):
    lines = text.split("\n")
    if len(lines) < 3:
        raise FormatError("too short")
    title = lines[0]
    t2 = lines[1].split()
    if len(t2) != 4:
        raise FormatError("line 2 %r should be Z mass a lattice" % lines[1])
    t3 = lines[2].split()
    if len(t3) != 5:
        raise FormatError("line 3 %r should be nrho drho nr dr cutoff" % lines[2])
    nrho, drho, nr, dr, cutoff = _i(t3[0]), _f(t3[1]), _i(t3[2]), _f(t3[3]), _f(t3[4])
    tk = _Tok("\n".join(lines[3:]))
    res = {"title": title, "Z": _i(t2[0]), "mass": _f(t2[1]), "a": _f(t2[2]), "lattice": t2[3],
           "nrho": nrho, "drho": drho, "nr": nr, "dr": dr, "cutoff": cutoff,
           "embed": tk.floats(nrho, "embedding value"), "zr": tk.floats(nr, "effective charge"),
           "density": tk.floats(nr, "density value")}
    if not tk.done():
        raise FormatError("%d unexpected trailing tokens" % len(tk.rest()))
    return res


# --------------------------------------------------------------------------
def gulp(text):
    """GULP spline library -> [ {a, b, cutoff, rows:[(energy, r)]} ]"""
    lines = text.split("\n")
    if lines and lines[-1] == "":
        lines = lines[:-1]
    out = []
    i = 0
    while i < len(lines):
        if lines[i].strip() != "spline cubic":
            raise FormatError("expected 'spline cubic', found %r" % lines[i])
        i += 1
        if i >= len(lines):
            raise FormatError("missing species line")
        t = lines[i].split()
        if len(t) != 3:
            raise FormatError("species line %r should be 'A B cutoff'" % lines[i])
        blk = {"a": t[0], "b": t[1], "cutoff": _f(t[2]), "rows": []}
        i += 1
        while i < len(lines) and lines[i].strip() != "spline cubic":
            r = lines[i].split()
            if len(r) != 2:
                raise FormatError("row %r should be 'energy separation'" % lines[i])
            blk["rows"].append((_f(r[0]), _f(r[1])))
            i += 1
        out.append(blk)
    return out


# --------------------------------------------------------------------------
def xlsx(data):
    """workbook bytes -> {sheet: {"header": [...], "rows": [[...], ...]}}"""
    from openpyxl import load_workbook
    wb = load_workbook(io.BytesIO(data), read_only=False)
    out = {}
    for ws in wb.worksheets:
        rows = [list(r) for r in ws.iter_rows(values_only=True)]
        out[ws.title] = {"header": rows[0] if rows else [], "rows": rows[1:]}
    return out
