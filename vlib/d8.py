"""Black-box differentiation: 8th-order central stencil at h and h/2 with an
error estimate (DESIGN 2.2)."""
from .num import EPS

_C = (4.0 / 5.0, -1.0 / 5.0, 4.0 / 105.0, -1.0 / 280.0)


def _d8(f, x, h):
    s = 0.0
    mx = 0.0
    for k, c in enumerate(_C, 1):
        a = f(x + k * h)
        b = f(x - k * h)
        s += c * (a - b)
        mx = max(mx, abs(a), abs(b))
    return s / h, mx


def d8(f, x, h, scale=0.0):
    """(derivative estimate, error estimate).  `scale` = magnitude of the intermediate terms of f when known
    (a function computed as 1 + x - 1 is only resolved to eps*1, whatever the size of its values)"""
    d1, m1 = _d8(f, x, h)
    d2, m2 = _d8(f, x, h / 2.0)
    est = abs(d1 - d2) + 8.0 * EPS * max(m1, m2, scale) / (h / 2.0)
    return d2, est
