"""Black-box differentiation: 8th-order central stencil at h and h/2 with an
error estimate (DESIGN 2.2)."""
from .num import EPS

_C = (4.0 / 5.0, -1.0 / 5.0, 4.0 / 105.0, -1.0 / 280.0)


def _d8(f, x, h):
    s = 0.0
    mx = 0.0
    for k, c in enumerate(_C, 1):
        a = f(x + k * h)
        b = f(x - k * h)
        s += c * (a - b)
        mx = max(mx, abs(a), abs(b))
    return s / h, mx


def d8(f, x, h, scale=0.0):
    """(derivative estimate, error estimate).  `scale` = magnitude of the intermediate terms of f when known
    (a function computed as 1 + x - 1 is only resolved to eps*1, whatever the size of its values)"""
    d1, m1 = _d8(f, x, h)
    d2, m2 = _d8(f, x, h / 2.0)
    d3, m3 = _d8(f, x, h / 4.0)
    noise = 8.0 * EPS * max(m1, m2, m3, scale) / (h / 4.0)
    est = max(abs(d1 - d2), abs(d2 - d3)) + noise
    # two agreeing estimates can both be wrong when the stencil spans several oscillations of f (cos(x*x) at
    # x = 25 with h = 0.01): the estimates must CONVERGE as the step is halved, otherwise nothing is claimed
    if abs(d2 - d3) > 0.25 * abs(d1 - d2) + 4.0 * noise:
        return d3, float("inf")
    return d3, est
