"""Make the code under test importable from $VERIF_REPO (default /repo).

atsim is an *editable namespace* install hard-wired to /repo (a nspkg .pth file
plus an `__editable__` finder); PYTHONPATH cannot override it.  For the normal
case (/repo) nothing has to be done.  For sensitivity runs against a scratch
copy the finder mapping and the namespace path are re-pointed before
`atsim.potentials` is imported.
"""
import os
import sys
import warnings

warnings.filterwarnings("ignore")

REPO = os.path.realpath(os.environ.get("VERIF_REPO", "/repo"))
VERIF = os.path.dirname(os.path.dirname(os.path.abspath(__file__)))
DEPS = os.path.join(VERIF, ".deps")
_done = False


def activate():
    global _done
    if _done:
        return
    _done = True
    import logging
    logging.disable(logging.CRITICAL)   # the library warns about every defaulted option
    if os.path.isdir(DEPS) and DEPS not in sys.path:
        sys.path.append(DEPS)
    if "atsim.potentials" in sys.modules:
        mod = sys.modules["atsim.potentials"]
        if not os.path.realpath(mod.__file__).startswith(REPO + os.sep):
            raise RuntimeError("atsim.potentials already imported from %s" % mod.__file__)
        return
    if REPO != "/repo":
        try:
            import __editable___atsim_potentials_0_4_1_finder as F
            F.MAPPING["atsim"] = os.path.join(REPO, "atsim")
            F.MAPPING["tests.config"] = os.path.join(REPO, "tests", "config")
        except ImportError:
            pass
        import atsim
        atsim.__path__[:] = [os.path.join(REPO, "atsim")]
    import atsim.potentials  # noqa
    got = os.path.realpath(sys.modules["atsim.potentials"].__file__)
    if not got.startswith(REPO + os.sep):
        raise RuntimeError("atsim.potentials imported from %s, wanted %s" % (got, REPO))


def repo_python_shim():
    """Python source prefix which re-points atsim at REPO inside a child process."""
    return (
        "import os,sys,warnings\nwarnings.filterwarnings('ignore')\n"
        "sys.path.insert(0, %r)\nos.environ['VERIF_REPO']=%r\n"
        "from vlib import bootstrap\nbootstrap.activate()\n" % (VERIF, REPO)
    )
