"""Reference closed forms of the built-in potential forms, typed in from the
documentation (docs/reference/potential_forms.rst and the docstrings), written
over the generic Jet/EN tower of vlib.num -- they share no code with
atsim.potentials.potentialfunctions.

Signatures (documented argument order):
  bornmayer A rho | buck A rho C | constant C | coul qi qj | exponential A n |
  exp_spline B0..B5 C | hbnd A B | lj epsilon sigma | morse gamma r_star D |
  polynomial C0..Cn | sqrt G | tang_toennies A b C6 C8 C10 | zbl Zi Zj | zero
"""
import math

from .num import Jet, EN, DomainError


def _one(r):
    return Jet.const(1.0, r.n)


def bornmayer(r, A, rho):
    return (-(r / rho)).exp() * A


def buck(r, A, rho, C):
    return (-(r / rho)).exp() * A - r.powc(-6) * C


def constant(r, C):
    return Jet.const(C, r.n)


def coul(r, qi, qj):
    # 1/(4 pi eps0) with eps0 = 0.0055264 e^2/(eV Angstrom)
    return (qi * qj) / (r * (4.0 * math.pi * 0.0055264))


def exponential(r, A, n):
    return r.powc(n) * A


def exp_spline(r, B0, B1, B2, B3, B4, B5, C):
    p = ((((r * B5 + B4) * r + B3) * r + B2) * r + B1) * r + B0
    return p.exp() + C


def hbnd(r, A, B):
    return r.powc(-12) * A - r.powc(-10) * B


def lj(r, epsilon, sigma):
    sr6 = (sigma / r).powc(6)
    return (sr6 * sr6 - sr6) * (4.0 * epsilon)


def morse(r, gamma, r_star, D):
    x = (r - r_star) * gamma
    return ((-(x * 2.0)).exp() - (-x).exp() * 2.0) * D


def polynomial(r, *coefs):
    if not coefs:
        return Jet.const(0.0, r.n)
    out = Jet.const(coefs[-1], r.n)
    for c in reversed(coefs[:-1]):
        out = out * r + c
    return out


def sqrt(r, G):
    return r.sqrt() * G


def _f2n(x, n):
    s = Jet.const(1.0, x.n)
    term = Jet.const(1.0, x.n)
    for k in range(1, 2 * n + 1):
        term = term * x / float(k)
        s = s + term
    return 1.0 - (-x).exp() * s


def tang_toennies(r, A, b, C6, C8, C10):
    # energies in Hartree, lengths in Bohr inside the formula (module constants
    # 0.5292 and 27.211, as declared by the form itself)
    R = r / 0.5292
    x = R * b
    v = (-x).exp() * A
    v = v - _f2n(x, 3) * C6 * R.powc(-6)
    v = v - _f2n(x, 4) * C8 * R.powc(-8)
    v = v - _f2n(x, 5) * C10 * R.powc(-10)
    return v * 27.211


def zbl(r, z1, z2):
    # universal ZBL, constants as declared by the form (DESIGN 3.4)
    a = (0.8854 * 0.529) / (float(z1) ** 0.23 + float(z2) ** 0.23)
    x = r / a
    phi = ((-(x * 3.2)).exp() * 0.1818 + (-(x * 0.9423)).exp() * 0.5099
           + (-(x * 0.4029)).exp() * 0.2802 + (-(x * 0.2016)).exp() * 0.02817)
    return phi * (14.39942 * z1 * z2) / r


def zero(r):
    return Jet.const(0.0, r.n)


REF = dict(bornmayer=bornmayer, buck=buck, constant=constant, coul=coul,
           exponential=exponential, exp_spline=exp_spline, hbnd=hbnd, lj=lj,
           morse=morse, polynomial=polynomial, sqrt=sqrt,
           tang_toennies=tang_toennies, zbl=zbl, zero=zero)

ARITY = dict(bornmayer=2, buck=3, constant=1, coul=2, exponential=2, exp_spline=7,
             hbnd=2, lj=2, morse=3, polynomial=None, sqrt=1, tang_toennies=5,
             zbl=2, zero=0)

# forms whose reference is finite (regular) at r == 0
REGULAR_AT_0 = {"bornmayer", "constant", "exp_spline", "morse", "polynomial", "sqrt", "zero"}


def regular_at_zero(name, params):
    if name in REGULAR_AT_0:
        return True
    if name == "exponential":
        return params[1] >= 0 and params[1] == int(params[1])
    if name in ("buck",):
        return params[2] == 0
    if name in ("coul",):
        return params[0] == 0 or params[1] == 0
    if name == "hbnd":
        return params[0] == 0 and params[1] == 0
    return False
