"""Hypothesis strategies that *construct* abstract models (JSON values).

Only inputs the library documents as valid are produced (DESIGN 2.1): the
documented potable grammar, per-form parameter domains in which every form is
finite on the separations used, names that exprtk accepts.
"""
import math

from hypothesis import strategies as st

# --------------------------------------------------------------------------
# numbers
# --------------------------------------------------------------------------

def _round_sig(x, sig):
    if x == 0 or not math.isfinite(x):
        return 0.0
    d = sig - int(math.floor(math.log10(abs(x)))) - 1
    return round(x, d)


def fl(lo, hi, sig=4):
    """floats typed as a user would (few significant digits), some at full precision"""
    def fix(x, s):
        v = _round_sig(x, s)
        if abs(v) < 1e-6:
            v = 0.0   # magnitudes a user would not type; zero itself stays interesting
        if v < lo or v > hi:
            v = min(max(v, lo), hi)
        return float(v)
    base = st.floats(lo, hi, allow_nan=False, allow_infinity=False)
    return st.one_of(base.map(lambda x: fix(x, sig)), base.map(lambda x: fix(x, 2)),
                     base.map(lambda x: fix(x, 9)))


def number(lo, hi, ints=True):
    """ints (kept as JSON ints, rendered without a decimal point) and floats"""
    opts = [fl(lo, hi)]
    ilo, ihi = int(math.ceil(lo)), int(math.floor(hi))
    if ints and ilo <= ihi:
        opts.append(st.integers(ilo, ihi))
    return st.one_of(*opts)


def nonzero(s):
    return s.filter(lambda v: v != 0)


# --------------------------------------------------------------------------
# built-in form leaves
# --------------------------------------------------------------------------

def form_params(name):
    n = number
    if name == "bornmayer":
        return st.tuples(n(-100, 2e4), fl(0.1, 1.0))
    if name == "buck":
        return st.tuples(n(-100, 2e4), fl(0.1, 1.0), n(-50, 200))
    if name == "constant":
        return st.tuples(n(-1e3, 1e3))
    if name == "coul":
        return st.tuples(n(-4, 4), n(-4, 4))
    if name == "exponential":
        return st.tuples(n(-10, 10), st.one_of(st.integers(-12, 6), fl(-8, 4)))
    if name == "exp_spline":
        return st.tuples(*([fl(-1, 1)] * 6 + [n(-5, 5)])).map(
            lambda t: (t[0], t[1], t[2] / 100, t[3] / 1e3, t[4] / 1e5, t[5] / 1e6, t[6]))
    if name == "hbnd":
        return st.tuples(n(0, 1e3), n(0, 1e3))
    if name == "lj":
        return st.tuples(fl(1e-3, 1.0), fl(1.0, 4.0))
    if name == "morse":
        return st.tuples(fl(0.5, 3.0), fl(1.0, 3.0), n(-5, 5))
    if name == "polynomial":
        return st.lists(n(-4, 4), min_size=1, max_size=9).map(tuple)
    if name == "sqrt":
        return st.tuples(n(-4, 4))
    if name == "tang_toennies":
        full = st.tuples(n(1, 100), fl(1, 3), n(1, 10), n(10, 100), n(100, 1e3))
        # any of the dispersion coefficients may be absent (zero) or of either sign
        gaps = st.tuples(full, st.sampled_from([(0, 1, 1), (0, 0, 1), (0, 1, 0), (1, 0, 1), (1, 0, 0), (1, 1, 0), (0, 0, 0), (1, -1, 1)])).map(
            lambda t: t[0][:2] + tuple(c * k for c, k in zip(t[0][2:], t[1])))
        return st.one_of(full, full, gaps)
    if name == "zbl":
        # whole atomic numbers typed as ints or floats, and fractional (effective) charges
        z = st.one_of(st.integers(1, 92), st.integers(1, 92).map(float), fl(0.3, 92.0, sig=3))
        return st.tuples(z, z)
    if name == "zero":
        return st.just(())
    if name == "buck4":
        def mk(t):
            A, rho, C, rd, L, f = t
            rd = round(rd, 3)
            ra = round(rd + L, 3)
            rm = round(rd + L * f, 3)
            return (A, rho, C, rd, rm, ra)
        floats = st.tuples(n(50, 2e4), fl(0.1, 0.6), n(1, 200), fl(0.5, 2.0), fl(0.5, 2.5),
                           fl(0.15, 0.85)).map(mk)
        # break points typed as whole numbers (parsed as Python ints from potable text)
        ints = st.tuples(n(50, 2e4), fl(0.1, 0.6), n(1, 200), st.sampled_from(INT_BREAKS)).map(
            lambda t: (t[0], t[1], t[2]) + t[3])
        return st.one_of(floats, floats, ints)
    raise KeyError(name)


UNIT_FORMS = ["bornmayer", "buck", "constant", "coul", "exponential", "exp_spline", "hbnd", "lj", "morse",
              "polynomial", "sqrt", "zero", "buck4"]


def rescale(name, p, e, l):
    """the parameter vector of the same physical function in other units: energies multiplied by E = 10**e and
    lengths by L = 10**l (eV and Angstrom -> J and m is e = -19, l = -10).  All values stay valid parameters; the
    individual terms keep their relative sizes, so nothing may be dropped as 'negligible'."""
    E, L = 10.0 ** e, 10.0 ** l
    p = [float(x) for x in p]
    if name == "bornmayer":
        return [p[0] * E, p[1] * L]
    if name == "buck":
        return [p[0] * E, p[1] * L, p[2] * E * L ** 6]
    if name == "constant":
        return [p[0] * E]
    if name == "coul":
        return [p[0] * E * L, p[1]]
    if name == "exponential":
        return [p[0] * E * 10.0 ** (-l * p[1]), p[1]]
    if name == "exp_spline":
        return [p[0] + e * math.log(10.0)] + [p[i] / L ** i for i in range(1, 6)] + [p[6] * E]
    if name == "hbnd":
        return [p[0] * E * L ** 12, p[1] * E * L ** 10]
    if name == "lj":
        return [p[0] * E, p[1] * L]
    if name == "morse":
        return [p[0] / L, p[1] * L, p[2] * E]
    if name == "polynomial":
        return [c * E / L ** i for i, c in enumerate(p)]
    if name == "sqrt":
        return [p[0] * E * 10.0 ** (-l / 2.0)]
    if name == "zero":
        return []
    if name == "buck4":
        return [p[0] * E, p[1] * L, p[2] * E * L ** 6, p[3] * L, p[4] * L, p[5] * L]
    raise KeyError(name)


INT_BREAKS = [(1, 2, 3), (1, 2, 4), (1, 3, 4), (2, 3, 4), (2, 3, 5), (1, 2, 5)]

BUILTIN = ["bornmayer", "buck", "constant", "coul", "exponential", "exp_spline", "hbnd",
           "lj", "morse", "polynomial", "sqrt", "tang_toennies", "zbl", "zero"]
REGULAR = ["bornmayer", "constant", "exp_spline", "morse", "polynomial", "zero"]


def form_leaf(names=None):
    names = names or (BUILTIN + ["buck4"])
    return st.sampled_from(names).flatmap(
        lambda nm: form_params(nm).map(lambda p: {"k": "form", "name": nm, "p": list(p)}))


# --------------------------------------------------------------------------
# custom formulas
# --------------------------------------------------------------------------

FIRST_PARAM = ["r", "rij", "x"]
PARAM_POOL = ["a", "b0", "c1", "k", "p", "q", "s", "w", "alpha", "beta", "d2", "g", "h", "m", "t", "u", "z"]
# (a formula may be named like a standard form without its 'as.' prefix: 'buck' and 'as.buck' are two forms)
FORM_NAMES = ["cfa", "cfb", "morsex", "softcut", "fn1", "fn2", "mix", "dampf", "buck", "morse", "polynomial", "constant"]
TABLE_NAMES = ["tab1", "tab2", "tabulated", "tfx"]


def _num_expr(lo=0.1, hi=5.0):
    return number(lo, hi).map(lambda v: {"o": "num", "v": v})


def _rename_expr(e, vmap, fmap):
    if isinstance(e, list):
        return [_rename_expr(x, vmap, fmap) for x in e]
    if not isinstance(e, dict):
        return e
    out = {}
    for k, v in e.items():
        out[k] = _rename_expr(v, vmap, fmap)
    if out.get("o") == "var":
        out["n"] = vmap[out["n"]]
    elif out.get("o") == "custom":
        out["f"] = fmap[out["f"]]
    return out


def expr(vars_, first, prior, depth, feature=None):
    """expression over variable names `vars_` (vars_[0] == first = the separation-like
    variable); prior = list of earlier custom forms (name, nparams) callable from here.
    The underlying strategy is built once per shape and cached; names are substituted."""
    assert vars_[0] == first
    ph_vars = tuple("V%d" % i for i in range(len(vars_)))
    ph_prior = tuple(("F%d" % i, n) for i, (_, n) in enumerate(prior))
    base = _expr_cached(ph_vars, ph_prior, depth, feature)
    vmap = dict(zip(ph_vars, vars_))
    fmap = dict(("F%d" % i, nm) for i, (nm, _) in enumerate(prior))
    return base.map(lambda e: _rename_expr(e, vmap, fmap))


import functools


@functools.lru_cache(maxsize=None)
def _expr_cached(vars_, prior, depth, feature=None):
    return _expr(list(vars_), vars_[0], list(prior), depth, feature)


FEATURES = ["arith", "func", "if", "pymath", "as", "custom"]


def _expr(vars_, first, prior, depth, feature=None):
    var = st.sampled_from(vars_).map(lambda n: {"o": "var", "n": n})
    rvar = st.just({"o": "var", "n": first})
    leaf = st.one_of(var, rvar, _num_expr())
    if depth <= 0:
        return leaf
    sub = _expr_cached(tuple(vars_), tuple(prior), depth - 1)

    def binop(o):
        return st.tuples(sub, sub).map(lambda t: {"o": o, "a": t[0], "b": t[1]})

    def onep(e):  # 1 + e^2  (positive)
        return {"o": "+", "a": {"o": "num", "v": 1}, "b": {"o": "^", "a": e, "p": 2}}

    div = st.one_of(
        st.tuples(sub, rvar).map(lambda t: {"o": "/", "a": t[0], "b": t[1]}),
        st.tuples(sub, _num_expr(0.5, 4)).map(lambda t: {"o": "/", "a": t[0], "b": t[1]}),
        st.tuples(sub, sub).map(lambda t: {"o": "/", "a": t[0], "b": onep(t[1])}))
    power = st.one_of(
        st.tuples(sub, st.integers(2, 3)).map(lambda t: {"o": "^", "a": t[0], "p": t[1]}),
        st.tuples(sub, st.one_of(fl(-2, 2), st.integers(-3, -1))).map(
            lambda t: {"o": "^", "a": onep(t[0]), "p": t[1]}),
        st.tuples(rvar, st.one_of(st.integers(-6, 4), fl(-3, 3))).map(
            lambda t: {"o": "^", "a": t[0], "p": t[1]}))
    bounded_exp = st.one_of(
        sub.map(lambda e: {"o": "call", "f": "exp", "args": [{"o": "neg", "a": {"o": "^", "a": e, "p": 2}}]}),
        st.tuples(rvar, _num_expr(0.2, 3)).map(
            lambda t: {"o": "call", "f": "exp", "args": [{"o": "neg", "a": {"o": "/", "a": t[0], "b": t[1]}}]}))
    call1 = st.tuples(st.sampled_from(["sin", "cos", "tanh", "erf", "erfc", "abs"]), sub).map(
        lambda t: {"o": "call", "f": t[0], "args": [t[1]]})
    call_pos = st.tuples(st.sampled_from(["sqrt", "log"]), sub).map(
        lambda t: {"o": "call", "f": t[0], "args": [onep(t[1])]})
    mm = st.tuples(st.sampled_from(["min", "max"]), sub, sub).map(
        lambda t: {"o": "call", "f": t[0], "args": [t[1], t[2]]})
    cmpc = st.tuples(st.sampled_from(["<", ">", "<=", ">="]), rvar, _num_expr(0.3, 8)).map(
        lambda t: {"c": t[0], "a": t[1], "b": t[2]})
    cond = st.one_of(cmpc, st.tuples(st.sampled_from(["and", "or"]), cmpc, cmpc).map(
        lambda t: {"c": t[0], "a": t[1], "b": t[2]}))
    iff = st.tuples(cond, sub, sub).map(lambda t: {"o": "if", "c": t[0], "a": t[1], "b": t[2]})
    # C remainder: the result takes the sign of the DIVIDEND (r - c is negative below c), whatever the divisor's sign
    fmod = st.tuples(rvar, _num_expr(0.3, 8), _num_expr(0.3, 3), st.booleans()).map(
        lambda t: {"o": "pymath", "f": "fmod", "args": [{"o": "-", "a": t[0], "b": t[1]},
                                                         ({"o": "neg", "a": t[2]} if t[3] else t[2])]})
    pym = st.one_of(
        st.tuples(st.sampled_from(["sin", "cos", "tanh", "atan", "fabs"]), sub).map(
            lambda t: {"o": "pymath", "f": t[0], "args": [t[1]]}),
        st.tuples(st.sampled_from(["sqrt", "log", "log10", "log2", "log1p"]), sub).map(
            lambda t: {"o": "pymath", "f": t[0], "args": [onep(t[1])]}),
        st.tuples(sub, fl(-2, 2)).map(
            lambda t: {"o": "pymath", "f": "pow", "args": [onep(t[0]), {"o": "num", "v": t[1]}]}),
        st.lists(sub, min_size=2, max_size=4).map(lambda l: {"o": "pymath", "f": "fsum", "args": l}),
        st.tuples(sub, sub).map(lambda t: {"o": "pymath", "f": "hypot", "args": list(t)}),
        st.integers(0, 6).map(lambda k: {"o": "pymath", "f": "factorial", "args": [{"o": "num", "v": k}]}),
        st.tuples(st.integers(1, 60), st.integers(1, 60)).map(
            lambda t: {"o": "pymath", "f": "gcd", "args": [{"o": "num", "v": t[0]}, {"o": "num", "v": t[1]}]}),
        st.tuples(sub, st.integers(-3, 4)).map(
            lambda t: {"o": "pymath", "f": "ldexp", "args": [t[0], {"o": "num", "v": t[1]}]}),
        st.tuples(st.sampled_from(["degrees", "radians"]), sub).map(
            lambda t: {"o": "pymath", "f": t[0], "args": [t[1]]}),
        st.tuples(sub, sub).map(lambda t: {"o": "pymath", "f": "copysign", "args": list(t)}),
        st.tuples(st.sampled_from(["floor", "ceil", "trunc"]), rvar, _num_expr(0.5, 3)).map(
            lambda t: {"o": "pymath", "f": t[0], "args": [{"o": "*", "a": t[1], "b": t[2]}]}),
        fmod, fmod,
    )
    sep_like = st.one_of(rvar,
                         st.tuples(rvar, _num_expr(0.1, 2)).map(lambda t: {"o": "+", "a": t[0], "b": t[1]}),
                         st.tuples(rvar, _num_expr(0.5, 2)).map(lambda t: {"o": "*", "a": t[0], "b": t[1]}))
    asf = st.sampled_from(["bornmayer", "buck", "coul", "hbnd", "lj", "morse", "polynomial", "constant",
                           "exponential", "sqrt", "zbl", "tang_toennies", "exp_spline", "zero"]).flatmap(
        lambda nm: st.tuples(sep_like, form_params(nm)).map(
            lambda t: {"o": "as", "f": nm, "args": [t[0]] + [{"o": "num", "v": p} for p in t[1]]}))
    groups = {
        "arith": st.one_of(binop("+"), binop("-"), binop("*"), div, power, sub.map(lambda e: {"o": "neg", "a": e})),
        "func": st.one_of(bounded_exp, call1, call_pos, mm),
        "if": iff, "pymath": pym, "as": asf, "leaf": leaf,
        "fmod": st.one_of(fmod, st.tuples(fmod, sub).map(lambda t: {"o": "+", "a": t[0], "b": t[1]})),
    }
    if prior:
        def mkcall(t):
            (name, npar), a0, rest = t
            return {"o": "custom", "f": name, "args": [a0] + rest[:npar - 1]}
        cc = st.sampled_from(prior).flatmap(
            lambda pr: st.tuples(st.just(pr), sep_like,
                                 st.lists(st.one_of(var, _num_expr()), min_size=pr[1] - 1, max_size=pr[1] - 1))
        ).map(mkcall)
        # two calls of one shared sub-form with different arguments in a single formula
        cc2 = st.tuples(cc, cc, st.sampled_from(["+", "-", "*"])).map(
            lambda t: {"o": t[2], "a": t[0], "b": t[1]})
        groups["custom"] = st.one_of(cc, cc2, cc2)
    # the construct at the top of an expression is chosen explicitly (uniformly over the
    # feature groups): left to a flat one_of, Hypothesis' novelty search was measured to
    # produce 'if' and 'as.*' calls in < 3 % of formulas
    if feature is not None:
        # the construct at the top is forced (stratified generation); 'custom' needs prior forms
        return groups.get(feature, groups["arith"])
    names = sorted(groups)
    if prior:
        names = names + ["custom", "custom"]
    return st.sampled_from(names).flatmap(lambda n: groups[n])


@st.composite
def custom_forms(draw, max_forms=3, depth=2, min_forms=0, last_feature=None):
    """list of custom forms in DAG order; with last_feature the formula of the last form
    has that construct at its top (and at least two forms exist when it is 'custom')"""
    if last_feature == "custom":
        min_forms = max(min_forms, 2)
    elif last_feature is not None:
        min_forms = max(min_forms, 1)
    n = draw(st.integers(min_forms, max(max_forms, min_forms)))
    names = draw(st.permutations(FORM_NAMES))[:n]
    forms = []
    for i, nm in enumerate(names):
        first = draw(st.sampled_from(FIRST_PARAM))
        npar = draw(st.integers(0, 3))
        ps = draw(st.permutations(PARAM_POOL))[:npar]
        prior = [(f["name"], len(f["params"])) for f in forms]
        feat = last_feature if i == n - 1 else None
        e = draw(expr([first] + list(ps), first, prior, depth, feat))
        forms.append({"name": nm, "params": [first] + list(ps), "expr": e})
    return forms


def custom_leaf(forms):
    def mk(f):
        npar = len(f["params"]) - 1
        return st.lists(number(0.2, 4), min_size=npar, max_size=npar).map(
            lambda ps: {"k": "custom", "name": f["name"], "p": ps})
    return st.sampled_from(forms).flatmap(mk)


# --------------------------------------------------------------------------
# table forms
# --------------------------------------------------------------------------

@st.composite
def table_form(draw, name, max_points=40, x0=None):
    n = draw(st.integers(4, max_points))
    start = draw(fl(0.0, 1.0)) if x0 is None else x0
    steps = draw(st.lists(fl(0.01, 1.0, sig=3), min_size=n - 1, max_size=n - 1))
    xs = [start]
    for s in steps:
        xs.append(round(xs[-1] + s, 6))
    ys = draw(st.lists(number(-50, 50), min_size=n, max_size=n))
    if draw(st.integers(0, 4)) == 0:
        # strictly increasing values: the y column would pass for an x column
        ys = [round(float(v) + 0.001 * i, 6) for i, v in enumerate(sorted(ys))]
    # y_x: the same two entries with the 'y' line written before the 'x' line (entries of a section have no order)
    style = draw(st.sampled_from(["x_y", "y_x", "xy_line", "xy_cont"]))
    t = {"name": name, "x": xs, "y": ys, "style": style}
    if draw(st.booleans()):
        t["interpolation"] = "cubic_spline"
    return t


@st.composite
def table_forms(draw, max_tables=2, max_points=40):
    n = draw(st.integers(0, max_tables))
    names = draw(st.permutations(TABLE_NAMES))[:n]
    return [draw(table_form(nm, max_points)) for nm in names]


# --------------------------------------------------------------------------
# potential definitions
# --------------------------------------------------------------------------

POS_BASE = ["constant", "bornmayer", "polynomial"]


def _positive_leaf():
    """reference-positive, bounded sub-expressions (bases of pow)"""
    return st.one_of(
        fl(0.5, 4.0).map(lambda c: {"k": "form", "name": "constant", "p": [c]}),
        st.tuples(fl(0.5, 50.0), fl(0.2, 1.0)).map(
            lambda t: {"k": "form", "name": "bornmayer", "p": list(t)}),
        st.lists(fl(0.1, 2.0, sig=2), min_size=1, max_size=3).map(
            lambda cs: {"k": "form", "name": "polynomial", "p": cs}))


def _small_exponent_leaf():
    return st.one_of(
        st.one_of(st.integers(-3, 3), fl(-3, 3)).map(lambda c: {"k": "form", "name": "constant", "p": [c]}),
        st.tuples(fl(-0.5, 0.5, sig=2), fl(-0.1, 0.1, sig=2)).map(
            lambda t: {"k": "form", "name": "polynomial", "p": list(t)}),
        st.tuples(fl(-3, 3), fl(0.3, 1.0)).map(lambda t: {"k": "form", "name": "bornmayer", "p": list(t)}))


def _single(body):
    return {"ranges": [{"m": None, "s": None, "body": body}]}


SMOOTH = ["bornmayer", "buck", "coul", "hbnd", "lj", "morse", "polynomial", "zbl", "constant",
          "exponential", "tang_toennies"]


@st.composite
def spline_node(draw, start_end=None):
    """spline(<start> >detach <exp_spline|buck4_spline r_min> >attach <end>) with
    twice-differentiable built-in end potentials"""
    # the start and end potentials are potential definitions: usually a form, but a modifier is just as valid
    smooth = form_leaf(SMOOTH)
    se = start_end or st.one_of(
        smooth, smooth, smooth,
        st.lists(smooth, min_size=2, max_size=2).map(lambda a_: {"k": "mod", "m": "sum", "args": [_single(x) for x in a_]}),
        st.tuples(smooth, fl(0.5, 2.0)).map(lambda t: {"k": "mod", "m": "product", "args": [
            _single(t[0]), _single({"k": "form", "name": "constant", "p": [t[1]]})]}))
    a = draw(se)
    b = draw(se)
    kind = draw(st.sampled_from(["exp_spline", "buck4_spline"]))
    if draw(st.integers(0, 4)) == 0:
        detach, rmin_i, attach = draw(st.sampled_from(INT_BREAKS))      # whole numbers, typed as ints
    else:
        detach = round(draw(fl(0.3, 2.0)), 3)
        attach = round(detach + draw(fl(0.3, 2.5)), 3)
        rmin_i = None
    if kind == "exp_spline":
        kw = {"k": "splinekw", "name": "exp_spline", "p": []}
    else:
        f = draw(fl(0.15, 0.85))
        kw = {"k": "splinekw", "name": "buck4_spline",
              "p": [rmin_i if rmin_i is not None else round(detach + (attach - detach) * f, 4)]}
    m1 = draw(st.sampled_from([">", ">="]))
    m2 = draw(st.sampled_from([">", ">="]))
    first_m = draw(st.sampled_from([None, None, ">"]))
    rgs = [{"m": first_m, "s": (None if first_m is None else 0), "body": a},
           {"m": m1, "s": detach, "body": kw},
           {"m": m2, "s": attach, "body": b}]
    return {"k": "mod", "m": "spline", "args": [{"ranges": rgs}]}


def _resolve(node, customs, tables):
    if isinstance(node, list):
        return [_resolve(x, customs, tables) for x in node]
    if not isinstance(node, dict):
        return node
    if node.get("k") == "custom" and "idx" in node:
        f = customs[node["idx"] % len(customs)]
        return {"k": "custom", "name": f["name"], "p": list(node["p"][:len(f["params"]) - 1])}
    if node.get("k") == "table" and "idx" in node:
        return {"k": "table", "name": tables[node["idx"] % len(tables)]["name"]}
    return dict((k, _resolve(v, customs, tables)) for k, v in node.items())


def potdef(depth=2, customs=(), tables=(), max_ranges=3, leaf_names=None, analytic_only=False,
           allow_spline=True, allow_pow=True):
    """strategy for a potable potential definition (cached per shape; custom/table
    leaves are drawn as indices and resolved against the forms available)"""
    customs = list(customs)
    tables = list(tables)
    base = _potdef_cached(depth, bool(customs) and not analytic_only, bool(tables), max_ranges,
                          tuple(leaf_names) if leaf_names else None, allow_spline, allow_pow)
    return base.map(lambda pd: _resolve(pd, customs, tables))


@functools.lru_cache(maxsize=None)
def _potdef_cached(depth, has_custom, has_table, max_ranges, leaf_names, allow_spline, allow_pow):
    leaves = [form_leaf(list(leaf_names) if leaf_names else None)]
    if has_custom:
        cl = st.tuples(st.integers(0, 7), st.lists(number(0.2, 4), min_size=3, max_size=3)).map(
            lambda t: {"k": "custom", "idx": t[0], "p": t[1]})
        leaves.extend([cl, cl])
    if has_table:
        leaves.append(st.integers(0, 7).map(lambda i: {"k": "table", "idx": i}))
    leaf = st.one_of(*leaves)

    nsel = st.sampled_from([1, 1, 1, 2, 3, 4, 5][:2 + max_ranges])
    first_marker = st.sampled_from([None, None, None, ">", ">="])
    marker = st.sampled_from([">", ">="])
    s_gt = st.sampled_from([0, 0.0, 0.5, 1.0])
    s_ge = st.sampled_from([0, 0, 0.25, 0.5, 1.0])    # ">=0": the only way a potable function is non-zero AT r = 0 (row 0 of EAM tables)
    gap = fl(0.2, 12.0, sig=3)
    shift = number(-1.5, 3)
    simple_pow = st.tuples(_positive_leaf(), _small_exponent_leaf()).map(
        lambda t: {"k": "mod", "m": "pow", "args": [_single(t[0]), _single(t[1])]})
    pos_const = fl(0.5, 2.0).map(lambda c: {"k": "form", "name": "constant", "p": [c]})
    small_const = st.one_of(st.integers(-2, 2), fl(-1.5, 1.5)).map(lambda c: {"k": "form", "name": "constant", "p": [c]})
    # modifiers nested inside the arguments of pow(): a(r) ** (b(r) ** c(r)), (a*b) ** c, a ** (b + c)
    inner_pow = st.tuples(pos_const, small_const).map(
        lambda t: {"k": "mod", "m": "pow", "args": [_single(t[0]), _single(t[1])]})
    nested_base = st.one_of(
        st.lists(_positive_leaf(), min_size=2, max_size=2).map(lambda a: {"k": "mod", "m": "sum", "args": [_single(x) for x in a]}),
        st.lists(_positive_leaf(), min_size=2, max_size=2).map(lambda a: {"k": "mod", "m": "product", "args": [_single(x) for x in a]}),
        inner_pow)
    nested_exp = st.one_of(
        inner_pow,
        st.lists(small_const, min_size=2, max_size=2).map(lambda a: {"k": "mod", "m": "sum", "args": [_single(x) for x in a]}))
    nested_pow = st.one_of(
        st.tuples(_positive_leaf(), nested_exp), st.tuples(nested_base, _small_exponent_leaf()),
        st.tuples(nested_base, nested_exp)).map(lambda t: {"k": "mod", "m": "pow", "args": [_single(t[0]), _single(t[1])]})
    # an argument of pow() is a whole potential definition: ranged and multi-range exponents (piecewise constant ...)
    def _ranged(t):
        m1, s1, b1, second = t
        rgs = [{"m": m1, "s": None if m1 is None else s1, "body": b1}]
        if second is not None:
            m2, g2, b2 = second
            rgs.append({"m": m2, "s": round((0.0 if m1 is None else s1) + g2, 3), "body": b2})
        return {"ranges": rgs}
    ranged_exp = st.tuples(st.sampled_from([None, ">", ">="]), st.sampled_from([0.5, 1.0, 1.5, 2.0]), _small_exponent_leaf(),
                           st.one_of(st.none(), st.tuples(marker, fl(0.2, 6.0, sig=3), _small_exponent_leaf()))).filter(
        lambda t: t[0] is not None or t[3] is not None).map(_ranged)
    ranged_pow = st.tuples(_positive_leaf(), ranged_exp).map(
        lambda t: {"k": "mod", "m": "pow", "args": [_single(t[0]), t[1]]})
    # a base that changes sign (c1 r - c0) under a whole-number exponent >= 2: a**n and its derivatives exist everywhere
    signed_pow = st.tuples(fl(0.5, 4.0, sig=2), st.sampled_from([1, 1.0, 2, 0.5]), st.sampled_from([2, 3, 4, 2.0])).map(
        lambda t: {"k": "mod", "m": "pow", "args": [_single({"k": "form", "name": "polynomial", "p": [-t[0], t[1]]}),
                                                    _single({"k": "form", "name": "constant", "p": [t[2]]})]})
    powmod = st.one_of(simple_pow, simple_pow, ranged_pow, signed_pow, nested_pow) if depth >= 2 else st.one_of(simple_pow, simple_pow, ranged_pow, signed_pow)
    splmod = spline_node()

    def make_pd(simple_s):
        @st.composite
        def build(draw):
            n = min(draw(nsel), max_ranges)
            first_m = draw(first_marker)
            first_s = None
            if first_m is not None:
                first_s = draw(s_gt) if first_m == ">" else draw(s_ge)
            base = 0.0 if first_s is None else float(first_s)
            body0 = draw(simple_s)
            if first_m == ">=" and first_s == 0 and not (body0.get("k") == "form" and body0.get("name") in REGULAR):
                # only functions that are regular at the origin are asked for their value there
                first_s = 0.25
                base = 0.25
            rgs = [{"m": first_m, "s": first_s, "body": body0}]
            starts = sorted(set(round(base + v, 3) for v in
                                draw(st.lists(gap, min_size=n - 1, max_size=n - 1))))
            rest = []
            for s in starts:
                if s <= base:
                    continue
                rest.append({"m": draw(marker), "s": s, "body": draw(simple_s)})
            rest = draw(st.permutations(rest)) if len(rest) > 1 else rest
            return {"ranges": rgs + list(rest)}
        return build()

    pd_s = make_pd(leaf)
    for _ in range(depth):
        sub = pd_s
        mods = [
            st.lists(sub, min_size=2, max_size=4).map(lambda a: {"k": "mod", "m": "sum", "args": a}),
            st.lists(sub, min_size=2, max_size=3).map(lambda a: {"k": "mod", "m": "product", "args": a}),
            st.tuples(sub, shift).map(lambda t: {"k": "mod", "m": "trans", "args": [t[0]], "x": t[1]}),
        ]
        if allow_pow:
            mods.append(powmod)
        if allow_spline:
            mods.append(splmod)
        pd_s = make_pd(st.one_of(leaf, leaf, *mods))
    return pd_s


@st.composite
def node_break_potdef(draw, nodes):
    """a multi-range definition whose break points are EXACTLY the given grid positions (floats produced by the
    format's own row formula, rendered with repr so that the file holds the same float): the row then belongs to the
    side the marker says ('>=s' includes s, '>s' does not) - whichever way the writer computes its row positions, if
    it is the documented way it lands on s itself"""
    nodes = sorted(set(float(x) for x in nodes if x > 0))[:3]
    bodies = draw(st.permutations([{"k": "form", "name": "constant", "p": [1.25]}, {"k": "form", "name": "constant", "p": [-3.5]},
                                   {"k": "form", "name": "polynomial", "p": [0.5, 2]}, {"k": "form", "name": "bornmayer", "p": [50.0, 0.7]},
                                   {"k": "form", "name": "zero", "p": []}]))
    first = draw(st.sampled_from([(None, None), (">=", 0), (">", 0)]))
    rgs = [{"m": first[0], "s": first[1], "body": bodies[0]}]
    for i, x in enumerate(nodes):
        rgs.append({"m": draw(st.sampled_from([">", ">="])), "s": x, "body": bodies[i + 1]})
    return {"ranges": rgs}


VARIATIONS = ["copy", "add_range", "add_range", "drop_range", "shift_start", "flip_marker", "other_first_body",
              "first_start", "first_start", "param_twin", "param_twin"]
# parameters of built-in forms that may take any sign
SIGNED_PARAMS = {"constant": [0], "coul": [0, 1], "buck": [0, 2], "bornmayer": [0], "exponential": [0], "morse": [2], "sqrt": [0]}


def _leaves(pd, path=()):
    """[(path, body)] of the parametrised leaves (built-in and custom forms) of a definition"""
    out = []
    for i, rg in enumerate(pd["ranges"]):
        b = rg["body"]
        if b.get("k") in ("form", "custom") and b.get("p"):
            out.append((path + (i,), b))
        elif b.get("k") == "mod" and b["m"] in ("sum", "product"):
            for j, a in enumerate(b["args"]):
                out += _leaves(a, path + (i, j))
    return out


def _leaf_at(pd, path):
    while len(path) > 1:
        pd = pd["ranges"][path[0]]["body"]["args"][path[1]]
        path = path[2:]
    return pd["ranges"][path[0]]["body"]


def _expr_has_custom(e):
    if isinstance(e, dict):
        return e.get("o") == "custom" or any(_expr_has_custom(v) for v in e.values())
    if isinstance(e, list):
        return any(_expr_has_custom(v) for v in e)
    return False


def _expr_vars(e, acc):
    if isinstance(e, dict):
        if e.get("o") == "var":
            acc.add(e["n"])
        for v in e.values():
            _expr_vars(v, acc)
    elif isinstance(e, list):
        for v in e:
            _expr_vars(v, acc)
    return acc


def vary(draw, pd, body, how=None, customs=None):
    """a definition that shares most of an earlier definition of the same model: an exact copy, the same ranges
    with a further range appended / the last one removed, the same bodies with one range start moved or one marker
    flipped, or the same continuation behind another first body.  Independent random definitions (almost) never
    coincide in any part, so anything keyed on part of a definition is only exercised by these."""
    import copy
    orig = pd
    pd = copy.deepcopy(pd)
    rgs = pd["ranges"]
    how_forced = how is not None
    how = how or draw(st.sampled_from(VARIATIONS))
    if how == "param_twin":
        # the same definition with ONE PARAMETER changed, the two values being -1 and -2 (or another close pair):
        # CPython gives hash(-1) == hash(-2), so anything keyed on a hash of the parameters confuses the two entries;
        # BOTH definitions are edited (the earlier one in place)
        cands = []
        for path, b in _leaves(orig):
            idx = range(len(b["p"])) if b["k"] == "custom" or b["name"] == "polynomial" else SIGNED_PARAMS.get(b["name"], [])
            if b["k"] == "custom" and customs:
                # only parameters the formula actually reads
                f = [c for c in customs if c["name"] == b["name"]]
                used = _expr_vars(f[0]["expr"], set()) if f else set()
                idx = [i for i in idx if not f or f[0]["params"][i + 1] in used]
            cands += [(path, i) for i in idx]
        if not cands:
            how = "copy"
        else:
            cc = [c for c in cands if _leaf_at(orig, c[0])["k"] == "custom"]
            if cc and (how_forced or draw(st.integers(0, 3)) > 0):
                cands = cc
            path, i = draw(st.sampled_from(cands))
            # ... or two values that agree to six significant figures (what '%g' prints) and differ beyond
            v1, v2 = draw(st.sampled_from([(-1, -2), (-2, -1), (-1.0, -2.0), (1.2345671, 1.2345674), (-1, -2), (1, -1), (2.0, 2.5),
                                           (1.388773, 1.388774)]))
            _leaf_at(orig, path)["p"] = list(_leaf_at(orig, path)["p"])
            _leaf_at(orig, path)["p"][i] = v1
            _leaf_at(pd, path)["p"] = list(_leaf_at(orig, path)["p"])
            _leaf_at(pd, path)["p"][i] = v2
            return pd
    inner = [r for r in rgs if r["body"].get("k") == "mod" and r["body"]["m"] in ("sum", "product", "trans")]
    if inner and how != "param_twin" and draw(st.integers(0, 2)) == 0:
        # the same modifier with ONE ARGUMENT varied (a range added to it, its start moved, ...)
        b = draw(st.sampled_from(inner))["body"]
        i = draw(st.integers(0, len(b["args"]) - 1))
        b["args"][i] = vary(draw, b["args"][i], body, customs=customs)
        return pd
    last = max([0.0] + [float(r["s"]) for r in rgs if r["m"] is not None])
    if how == "add_range" or (how in ("drop_range", "shift_start") and len(rgs) < 2):
        rgs.append({"m": draw(st.sampled_from([">", ">="])), "s": round(last + draw(fl(0.2, 4.0, sig=3)), 3),
                    "body": draw(st.one_of(st.just({"k": "form", "name": "zero", "p": []}), body))})
    elif how == "drop_range":
        top = max(range(1, len(rgs)), key=lambda i: float(rgs[i]["s"]))
        del rgs[top]
    elif how == "shift_start":
        top = max(range(1, len(rgs)), key=lambda i: float(rgs[i]["s"]))
        rgs[top]["s"] = round(float(rgs[top]["s"]) + draw(fl(0.1, 2.0, sig=3)), 3)
    elif how == "flip_marker":
        i = draw(st.integers(0, len(rgs) - 1))
        if rgs[i]["m"] is None:
            rgs[i]["m"], rgs[i]["s"] = ">=", 0.0      # bare definition acts for r > 0: the same range made inclusive
        else:
            rgs[i]["m"] = ">" if rgs[i]["m"] == ">=" else ">="
    elif how == "other_first_body":
        rgs[0]["body"] = draw(body)
    elif how == "first_start":
        # the same first body (and continuation) acting from another separation
        old = 0.0 if rgs[0]["m"] is None else float(rgs[0]["s"])
        others = [float(r["s"]) for r in rgs[1:]]
        new = round(old + draw(st.sampled_from([0.25, 0.5, 1.0, 2.0])), 3)
        if others and new >= min(others):
            new = round((old + min(others)) / 2.0, 4)
        rgs[0]["m"], rgs[0]["s"] = draw(st.sampled_from([">", ">="])), new
    return pd


# --------------------------------------------------------------------------
# species
# --------------------------------------------------------------------------

ELEMENTS = ["Al", "Cu", "Ni", "Fe", "O", "U", "Si", "Mg", "Gd", "Ce", "Ag", "Zr", "H", "Xe"]
# labels are case-sensitive: "al"/"CU"/"b" are species of their own beside Al, Cu and B
INVENTED = ["A", "B", "Xx", "Q1", "Mg2+", "core", "shl", "Zz_a", "M+", "al", "CU", "b"]


# invented labels that are certainly no chemical symbol ("B" is boron in the package's own element table)
NOT_ELEMENTS = [x for x in INVENTED if x != "B"]


def species_labels(n_min=1, n_max=4, pool=None):
    pool = pool or (ELEMENTS + INVENTED)
    return st.lists(st.sampled_from(pool), min_size=n_min, max_size=n_max, unique=True)


# --------------------------------------------------------------------------
# whole models
# --------------------------------------------------------------------------

def grid_rc(nr_max=60, nr_min=3):
    """(cutoff, nr): round and non-round cutoffs, mostly small tables and occasionally big ones"""
    cut = st.one_of(st.sampled_from([1.0, 2.5, 5.0, 6.5, 10.0, 12.0]), fl(0.5, 20.0))
    # sampled_from for the small sizes: st.integers() returns its lower bound far more often than any other value
    small = list(range(nr_min, max(nr_min, min(12, nr_max)) + 1))
    small = small[len(small) // 2:] + small[:len(small) // 2]      # Hypothesis favours the first element: a middling size
    nr = st.one_of(st.sampled_from(small), st.integers(min(nr_min + 4, nr_max), nr_max))
    return st.tuples(cut, nr)


@st.composite
def pair_model(draw, max_pots=4, depth=2, max_tables=1, pycallables=False, min_pots=1, max_customs=2):
    """{"env", "pair": [(A, B, potdef)], "species": [...]}; with pycallables custom leaves carry a
    'has' level (Python callables offering 0/1/2 analytic derivatives; API routes only)"""
    customs = draw(custom_forms(max_customs, 2)) if max_customs else []
    tables = draw(table_forms(max_tables, 10)) if max_tables else []
    npots = draw(st.integers(min_pots, max_pots))
    species = draw(species_labels(1 if npots == 1 else 2 if npots <= 3 else 3, 4))
    allpairs = [(a, b) for i, a in enumerate(species) for b in species[i:]]
    chosen = draw(st.permutations(allpairs))[:npots]
    pair = []
    levels = draw(st.lists(st.integers(0, 2), min_size=6, max_size=6))
    li = [0]

    def tag(node):
        if isinstance(node, dict):
            if node.get("k") == "custom":
                li[0] += 1
                return dict(node, has=levels[li[0] % len(levels)])
            return dict((k, tag(v)) for k, v in node.items())
        if isinstance(node, list):
            return [tag(v) for v in node]
        return node
    for a, b in chosen:
        if draw(st.booleans()):
            a, b = b, a
        if pair and draw(st.integers(0, 3)) == 0:
            pd = vary(draw, draw(st.sampled_from(pair))[2], potdef(0, customs, tables, max_ranges=1).map(lambda d: d["ranges"][0]["body"]), customs=customs)
        else:
            pd = draw(potdef(draw(st.sampled_from([0, 1, 1, depth])), customs, tables, max_ranges=3))
        if pycallables:
            pd = tag(pd)
        pair.append([a, b, pd])
    m = {"env": {"custom": customs, "table": tables}, "pair": pair, "species": species}
    if pycallables and draw(st.integers(0, 3)) == 0:
        m["int_returns"] = True         # API routes: callables return Python ints where their value is a whole number
    return m


# hard-coded cross-check table (atomic number exact, mass to 0.5 %)
ELEMENT_TABLE = {"Al": (13, 26.98), "Cu": (29, 63.55), "Ni": (28, 58.69), "Fe": (26, 55.85), "O": (8, 16.00),
                 "U": (92, 238.03), "Si": (14, 28.09), "Mg": (12, 24.31), "Gd": (64, 157.25), "Ce": (58, 140.12),
                 "Ag": (47, 107.87), "Zr": (40, 91.22), "H": (1, 1.008), "Xe": (54, 131.29)}
LATTICES = ["fcc", "bcc", "hcp", "sc", "dia"]


def eam_grid(nmax=24):
    small = st.integers(2, 8)
    return st.fixed_dictionaries({
        "nr": st.one_of(small, st.integers(2, nmax)), "cutoff": st.one_of(st.sampled_from([1.0, 5.0, 6.5]), fl(0.5, 12.0)),
        "nrho": st.one_of(small, st.integers(2, nmax)), "cutoff_rho": st.one_of(st.sampled_from([1.0, 50.0, 100.0]), fl(0.5, 200.0))})


@st.composite
def eam_model(draw, kind="eam", n_min=1, n_max=4, depth=1, pycallables=False, max_customs=1, pool=None, near_copies=False):
    """EAM ("eam"), Finnis-Sinclair ("fs") or ADP ("adp") model.
    {"kind", "env", "elements": [...] (embedding declaration order), "embed": [[A, pd]],
     "density": [[A, pd]] | "density_fs": [[A, B, pd]], "pair": [[A, B, pd]],
     "dipole"/"quadrupole": [[A, B, pd]], "species": [[label, prop, value]], "grid": {...}}
    Any subset of pairs / FS densities may be undeclared; pairs may name foreign species."""
    customs = draw(custom_forms(max_customs, 1)) if max_customs else []
    n = draw(st.integers(n_min, n_max))
    els = draw(st.lists(st.sampled_from(pool or (ELEMENTS + INVENTED)), min_size=n, max_size=n, unique=True))
    pdraw = potdef(depth, customs, [], max_ranges=2)
    p0 = potdef(0, customs, [], max_ranges=2)

    pool = []
    body0 = potdef(0, customs, [], max_ranges=1).map(lambda d: d["ranges"][0]["body"])

    def pot():
        if pool and near_copies and draw(st.integers(0, 2)) > 0:
            # most functions of the model are an earlier one with a range boundary moved or one parameter changed
            pd = vary(draw, draw(st.sampled_from(pool)), body0, customs=customs,
                      how=draw(st.sampled_from(["shift_start", "first_start", "flip_marker", "param_twin", "add_range"])))
        elif pool and draw(st.integers(0, 3)) == 0:
            pd = vary(draw, draw(st.sampled_from(pool)), body0)
        else:
            pd = draw(st.one_of(p0, p0, pdraw))
        b0 = pd["ranges"][0]["body"]
        if b0.get("k") == "form" and b0.get("name") in REGULAR and pd["ranges"][0]["m"] is None and draw(st.integers(0, 3)) == 0:
            # defined from (and including) the origin: row 0 of the table then holds f(0), not 0
            pd["ranges"][0]["m"], pd["ranges"][0]["s"] = ">=", 0
        pool.append(pd)
        return pd
    m = {"kind": kind, "env": {"custom": customs, "table": []}, "elements": els}
    # under-specified models: an element needs only an embedding OR a density entry; the other is zero-filled
    drop = draw(st.lists(st.sampled_from(["none", "none", "none", "embed", "density"]), min_size=n, max_size=n))
    if all(d == "embed" for d in drop):
        drop[0] = "none"
    m["embed"] = [[a, pot()] for a, d in zip(els, drop) if d != "embed"]
    if kind == "fs":
        dens = []
        for a in draw(st.permutations(els)):
            for b in draw(st.permutations(els)):
                if draw(st.integers(0, 5)) > 0:          # ~1/6 left undeclared
                    dens.append([a, b, pot()])
        # the two directions of a pair are often written as near-copies of each other (same forms and numbers with a
        # pair-specific cut-off, one more range, ...): each keeps its own definition
        for ent in dens:
            rev = [x for x in dens if (x[0], x[1]) == (ent[1], ent[0])]
            if ent[0] != ent[1] and rev and draw(st.integers(0, 3)) == 0:
                rev[0][2] = vary(draw, ent[2], body0)
        missing = [a for a, d in zip(els, drop) if d == "embed" and not any(a in (x[0], x[1]) for x in dens)]
        for a in missing:
            dens.append([a, a, pot()])
        if not dens:
            dens.append([els[0], els[0], pot()])
        m["density_fs"] = list(draw(st.permutations(dens)))
    else:
        keep = [a for a, d in zip(els, drop) if d != "density"]
        if not keep:
            keep = [els[0]]
        m["density"] = [[a, pot()] for a in draw(st.permutations(keep))]

    def pairlike(allow_foreign):
        out = []
        allp = [(a, b) for i, a in enumerate(els) for b in els[i:]]
        for a, b in draw(st.permutations(allp)):
            if draw(st.integers(0, 3)) > 0:             # ~1/4 undeclared
                if draw(st.booleans()):
                    a, b = b, a
                out.append([a, b, pot()])
        if allow_foreign and draw(st.integers(0, 4)) == 0:
            out.append([els[0], "Zq", pot()])
        return out
    m["pair"] = pairlike(True)
    if kind == "adp":
        m["dipole"] = pairlike(False)
        m["quadrupole"] = pairlike(False)
    # [Species]: invented labels need atomic number and mass; anything may be overridden
    sp = []
    for e in els:
        invented = e not in ELEMENT_TABLE
        if invented or draw(st.integers(0, 2)) == 0:
            sp.append([e, "atomic_number", draw(st.one_of(st.integers(1, 118), st.sampled_from([0, 1, 118])))])
        if invented or draw(st.integers(0, 2)) == 0:
            sp.append([e, "atomic_mass", draw(st.one_of(fl(1.0, 250.0), fl(1.0, 250.0), st.sampled_from([0.0, 0, 1])))])
        if draw(st.integers(0, 2)) == 0:
            sp.append([e, "lattice_constant", draw(st.one_of(fl(2.0, 6.0), fl(2.0, 6.0), st.sampled_from([0.0, 0, 1])))])
        if draw(st.integers(0, 2)) == 0:
            sp.append([e, "lattice_type", draw(st.sampled_from(LATTICES))])
    m["species"] = list(draw(st.permutations(sp))) if sp else []
    m["grid"] = draw(eam_grid())
    if pycallables and draw(st.integers(0, 3)) == 0:
        m["int_returns"] = True         # API routes: callables return Python ints where their value is a whole number
    return m


PAIR_TARGETS = ["LAMMPS", "DLPOLY", "DL_POLY", "GULP", "excel"]
EAM_TARGETS = {"setfl": "eam", "lammps_eam_alloy": "eam", "DL_POLY_EAM": "eam", "excel_eam": "eam",
               "setfl_fs": "fs", "DL_POLY_EAM_fs": "fs", "excel_eam_fs": "fs", "eam_adp": "adp"}


@st.composite
def any_model(draw, targets=None, n_min=1, n_max=3, depth=1, tables=True, customs=True, pool=None):
    """a whole potable model for any tabulation target: {"target", "kind", ...} in the shape
    vlib.anymodel.sections_of() understands (pair models carry cutoff/nr, EAM models a grid)"""
    target = draw(st.sampled_from(targets or (PAIR_TARGETS + sorted(EAM_TARGETS))))
    if target in EAM_TARGETS:
        m = draw(eam_model(EAM_TARGETS[target], n_min, n_max, depth=depth, max_customs=1 if customs else 0, pool=pool))
        if tables and draw(st.integers(0, 2)) == 0:
            t = draw(table_form("tab1", 8, x0=0.0))
            m["env"]["table"] = [t]
            m["pair"].append([m["elements"][0], "Tq", {"ranges": [{"m": None, "s": None, "body": {"k": "table", "name": "tab1"}}]}])
    else:
        m = draw(pair_model(3, depth, max_tables=1 if tables else 0, min_pots=1, max_customs=2 if customs else 0))
        cutoff, nr = draw(grid_rc(16))
        if target in ("DLPOLY", "DL_POLY"):
            nr = 4 * draw(st.integers(2, 5))
        m["grid"] = {"cutoff": cutoff, "nr": nr}
        m["kind"] = "pair"
    m["target"] = target
    return m


@st.composite
def special_pair_model(draw, kind, dlpoly=False):
    """pair models aimed at value classes that random parameters almost never hit:
    root_on_grid -- the energy is EXACTLY zero at a grid node while its slope is not (dyadic grid spacing, linear
                    potential or Lennard-Jones with sigma on a node);
    decay_tail   -- fast exponential tails (either sign) that run through 1e-99 .. 1e-308 and underflow;
    growth       -- values (either sign) that grow through 1e99 .. 1e200: three-digit exponents at the large end."""
    a, b = draw(st.sampled_from([("A", "B"), ("O", "U"), ("Mg", "O"), ("Xx", "Xx")]))
    if kind == "root_on_grid":
        q = draw(st.sampled_from([2, 3, 4]))
        step = 2.0 ** -q
        rows = draw(st.integers(6, 24)) * 4 if dlpoly else draw(st.integers(12, 60))
        nr = rows if dlpoly else rows + 1
        cutoff = (nr - 4) * step if dlpoly else (nr - 1) * step
        k = draw(st.integers(2, (nr - 5 if dlpoly else nr - 2)))
        rk = k * step
        c = draw(st.sampled_from([1, 2, 0.5, -1, 3]))
        body = draw(st.sampled_from([
            {"k": "form", "name": "polynomial", "p": [-c * rk, c]},
            {"k": "form", "name": "lj", "p": [draw(st.sampled_from([0.0104, 0.5, 1.0])), rk]},
            {"k": "mod", "m": "sum", "args": [_single({"k": "form", "name": "constant", "p": [-c * rk]}),
                                                _single({"k": "form", "name": "polynomial", "p": [0, c]})]}]))
        pd = _single(body)
    elif kind == "int_plateau":
        # whole numbers typed without a decimal point (Python ints on every route) in the first range, so that the
        # energy and/or its derivative is an int on the first rows and a non-integral float further out
        nr = draw(st.integers(6, 20)) * 4 if dlpoly else draw(st.integers(20, 80))
        cutoff = draw(st.sampled_from([4.0, 6.5, 10.0, 7.3]))
        c = draw(st.sampled_from([25, 2, -3, 1, 0, 7]))
        first = draw(st.sampled_from([{"k": "form", "name": "constant", "p": [c]},
                                      {"k": "form", "name": "polynomial", "p": [c]},
                                      {"k": "form", "name": "polynomial", "p": [c, draw(st.sampled_from([1, -2, 3]))]}]))
        brk = _round_sig(cutoff * draw(st.sampled_from([0.3, 0.42, 0.55, 0.7])), 3)
        then = draw(st.sampled_from([{"k": "form", "name": "buck", "p": [1000.0, 0.3, 32.0]},
                                     {"k": "form", "name": "bornmayer", "p": [draw(fl(10, 2e3)), 0.35]},
                                     {"k": "form", "name": "morse", "p": [1.7, 1.2, 0.8]},
                                     {"k": "form", "name": "lj", "p": [0.0104, 3.4]}]))
        m0 = draw(st.sampled_from([None, None, ">=", ">"]))
        pd = {"ranges": [{"m": m0, "s": None if m0 is None else 0.0, "body": first},
                         {"m": draw(st.sampled_from([">=", ">"])), "s": brk, "body": then}]}
    elif kind == "growth":
        nr = draw(st.integers(6, 20)) * 4 if dlpoly else draw(st.integers(20, 80))
        cutoff = draw(st.sampled_from([20.0, 25.0, 32.0, 40.0]))
        A = draw(st.sampled_from([-100.0, -3.0, -1, 1, 25.0, 1000.0]))
        body = draw(st.sampled_from([
            {"k": "form", "name": "exponential", "p": [A, draw(st.integers(70, 110))]},
            {"k": "form", "name": "bornmayer", "p": [A, -draw(st.sampled_from([0.08, 0.1, 0.125]))]},
            {"k": "mod", "m": "pow", "args": [_single({"k": "form", "name": "bornmayer", "p": [1.0, 0.2]}),
                                               _single({"k": "form", "name": "constant", "p": [-draw(st.sampled_from([2.0, 3.0]))]})]}]))
        pd = _single(body)
    else:
        nr = draw(st.integers(6, 20)) * 4 if dlpoly else draw(st.integers(20, 80))
        cutoff = draw(st.sampled_from([20.0, 25.0, 32.0, 40.0]))
        A = draw(st.sampled_from([-100.0, -3.0, -1, 1, 25.0, 1000.0]))
        rho = draw(st.sampled_from([0.04, 0.05, 0.08, 0.1]))
        body = draw(st.sampled_from([
            {"k": "form", "name": "bornmayer", "p": [A, rho]},
            {"k": "form", "name": "buck", "p": [A, rho, 0]},
            {"k": "mod", "m": "product", "args": [_single({"k": "form", "name": "bornmayer", "p": [A, 2 * rho]}),
                                                    _single({"k": "form", "name": "bornmayer", "p": [1.0, 2 * rho]})]}]))
        pd = _single(body)
    return {"env": {"custom": [], "table": []}, "pair": [[a, b, pd]], "species": sorted(set([a, b])),
            "cutoff": cutoff, "nr": nr, "special": kind}
