"""Abstract model -> text of a potable input file (several formatting styles)."""

DEFAULT_STYLE = {"delim": ":", "kpre": 0, "kpost": 1, "vpre": 1, "tok": 1,
                 "cont": False, "comments": False, "inner": 0}


def num(x):
    if isinstance(x, bool):
        raise TypeError("bool is not a number here")
    if isinstance(x, int):
        return str(x)
    r = repr(float(x))
    if r.endswith(".0") and "e" not in r and abs(x) < 1e15:
        # keep floats visibly floats
        return r
    return r


def spelled(x, style, sign=True):
    """num(x), or - under style['numspell'] - the same float as other programs and people write it: no zero in front
    of the point ('.5', '-.25'), a bare point after a whole float ('5.'), a capital E, an explicit plus sign.
    Ints stay as they are (the parser types them as ints)."""
    s = num(x)
    if not style.get("numspell") or isinstance(x, int):
        return s
    t = s
    if t.startswith("0.") and len(t) > 2:
        t = t[1:]
    elif t.startswith("-0.") and len(t) > 3:
        t = "-" + t[2:]
    elif t.endswith(".0") and "e" not in t:
        t = t[:-1]
    elif sign and not t.startswith("-") and len(t) % 2 == 0:
        t = "+" + t
    t = t.replace("e", "E")
    return t if float(t) == float(s) else s


def _join(tokens, style):
    if style.get("cont"):
        # break the value over indented continuation lines
        out = []
        for i, t in enumerate(tokens):
            out.append(t)
        sep = "\n" + " " * (4 + style.get("inner", 0))
        return sep.join(out)
    return (" " * max(1, style.get("tok", 1))).join(tokens)


def potdef_tokens(pd, style):
    toks = []
    for rg in pd["ranges"]:
        if rg["m"] is not None:
            toks.append(rg["m"] + " " * style.get("inner", 0) + spelled(rg["s"], style, sign=False))
        toks.extend(simple_tokens(rg["body"], style))
    return toks


def simple_tokens(b, style):
    k = b["k"]
    if k == "form":
        return ["as." + b["name"]] + [spelled(p, style) for p in b["p"]]
    if k == "custom":
        return [b["name"]] + [spelled(p, style) for p in b["p"]]
    if k == "table":
        return [b["name"]]
    if k == "splinekw":
        return [b["name"]] + [spelled(p, style) for p in b["p"]]
    if k == "mod":
        sp = " " * style.get("inner", 0)
        args = [" ".join(potdef_tokens(a, dict(style, cont=False))) for a in b["args"]]
        if b["m"] == "trans":
            args.append("as.constant " + spelled(b["x"], style))
        inner = (sp + "," + sp + (" " if not sp else "")).join(args)
        return [b["m"] + sp + "(" + sp + inner + sp + ")"]
    raise ValueError(b)


def potdef_text(pd, style=None):
    style = style or DEFAULT_STYLE
    return _join(potdef_tokens(pd, style), style)


# ---- custom formulas (exprtk syntax, fully parenthesised) -------------------

def _lit(v):
    s = num(v)
    return "(%s)" % s if s.startswith("-") else s


def expr_text(e):
    o = e["o"]
    if o == "num":
        return _lit(e["v"])
    if o == "var":
        return e["n"]
    if o in ("+", "-", "*", "/"):
        return "(%s %s %s)" % (expr_text(e["a"]), o, expr_text(e["b"]))
    if o == "neg":
        return "(-%s)" % expr_text(e["a"])
    if o == "^":
        return "(%s^%s)" % (expr_text(e["a"]), _lit(e["p"]))
    if o == "if":
        return "if(%s, %s, %s)" % (cond_text(e["c"]), expr_text(e["a"]), expr_text(e["b"]))
    args = ", ".join(expr_text(a) for a in e["args"])
    if o == "call":
        return "%s(%s)" % (e["f"], args)
    if o == "pymath":
        return "pymath.%s(%s)" % (e["f"], args)
    if o == "as":
        return "as.%s(%s)" % (e["f"], args)
    if o in ("custom", "table"):
        return "%s(%s)" % (e["f"], args)
    raise ValueError(e)


def cond_text(c):
    if c["c"] in ("and", "or"):
        return "(%s %s %s)" % (cond_text(c["a"]), c["c"], cond_text(c["b"]))
    return "(%s %s %s)" % (expr_text(c["a"]), c["c"], expr_text(c["b"]))


def signature_text(c, style=None):
    sp = " " * ((style or {}).get("inner", 0))
    return "%s(%s)" % (c["name"], ("," + sp).join(c["params"]))


# ---- whole files ------------------------------------------------------------

def entry(key, value, style):
    d = style.get("delim", ":")
    return "%s%s%s%s%s%s" % (" " * 0, key, " " * style.get("kpost", 1), d,
                             " " * style.get("vpre", 1), value)


def section(name, entries, style):
    """entries: list of (key, value) -> lines"""
    lines = ["[%s]" % name]
    for k, v in entries:
        if style.get("comments"):
            lines.append("# comment before %s" % k.replace("\n", " "))
        lines.append(entry(k, v, style))
    lines.append("")
    return lines


def table_entries(t, style):
    fmt = t.get("style", "x_y")
    ents = []
    if t.get("interpolation"):
        ents.append(("interpolation", t["interpolation"]))
    if fmt == "x_y":
        ents.append(("x", " ".join(num(v) for v in t["x"])))
        ents.append(("y", " ".join(num(v) for v in t["y"])))
    elif fmt == "xy_line":
        ents.append(("xy", " ".join("%s %s" % (num(a), num(b)) for a, b in zip(t["x"], t["y"]))))
    elif fmt == "y_x":
        ents.insert(0, ("y", " ".join(num(v) for v in t["y"])))
        ents.append(("x", " ".join(num(v) for v in t["x"])))
    else:  # xy continuation lines
        ents.append(("xy", "\n    ".join("%s %s" % (num(a), num(b)) for a, b in zip(t["x"], t["y"]))))
    return ents


def model_sections(model, style=None):
    """model -> ordered list of (section name, [(key, value)])

    model keys: tabulation {target, nr?, dr?, cutoff?, nrho?, drho?, cutoff_rho?},
    env, pair [(A,B,potdef)], embed [(A,potdef)], density [(A,potdef)] or
    density_fs [(A,B,potdef)], dipole, quadrupole [(A,B,potdef)],
    species [(label, prop, value)], variables [(name, value)]"""
    style = style or DEFAULT_STYLE
    secs = []
    if model.get("variables"):
        secs.append(("Variables", [(k, v) for k, v in model["variables"]]))
    tab = model.get("tabulation")
    if tab is not None:
        ents = []
        for k in ("target", "nr", "dr", "cutoff", "nrho", "drho", "cutoff_rho"):
            if k in tab and tab[k] is not None:
                v = tab[k]
                ents.append((k, v if isinstance(v, str) else num(v)))
        secs.append(("Tabulation", ents))
    if model.get("species"):
        secs.append(("Species", [("%s.%s" % (s, p), v if isinstance(v, str) else num(v))
                                 for s, p, v in model["species"]]))
    env = model.get("env") or {}
    for t in env.get("table", []):
        secs.append(("Table-Form:" + t["name"], table_entries(t, style)))
    if env.get("custom"):
        secs.append(("Potential-Form",
                     [(signature_text(c, style), expr_text(c["expr"])) for c in env["custom"]]))
    pk = style.get("pairsep", "-")
    if model.get("pair") is not None:
        secs.append(("Pair", [("%s%s%s" % (a, pk, b), potdef_text(pd, style))
                              for a, b, pd in model["pair"]]))
    if model.get("embed") is not None:
        secs.append(("EAM-Embed", [(a, potdef_text(pd, style)) for a, pd in model["embed"]]))
    if model.get("density") is not None:
        secs.append(("EAM-Density", [(a, potdef_text(pd, style)) for a, pd in model["density"]]))
    if model.get("density_fs") is not None:
        ar = style.get("arrow", "->")
        secs.append(("EAM-Density", [("%s%s%s" % (a, ar, b), potdef_text(pd, style))
                                     for a, b, pd in model["density_fs"]]))
    if model.get("dipole") is not None:
        secs.append(("EAM-ADP-Dipole", [("%s%s%s" % (a, pk, b), potdef_text(pd, style))
                                        for a, b, pd in model["dipole"]]))
    if model.get("quadrupole") is not None:
        secs.append(("EAM-ADP-Quadrupole", [("%s%s%s" % (a, pk, b), potdef_text(pd, style))
                                            for a, b, pd in model["quadrupole"]]))
    return secs


def sections_text(secs, style=None, order=None):
    style = style or DEFAULT_STYLE
    idx = list(range(len(secs)))
    if order:
        # order: list of floats used as sort keys (a permutation choice kept in the case)
        idx.sort(key=lambda i: order[i % len(order)] if order else i)
    lines = []
    for i in idx:
        name, ents = secs[i]
        lines.extend(section(name, ents, style))
    return "\n".join(lines) + "\n"


def model_text(model, style=None, order=None):
    return sections_text(model_sections(model, style), style, order)
