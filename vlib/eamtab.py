"""Shared machinery for the EAM table properties (C03, C04, C05, C19): building the
same abstract EAM model through the Python API and through potable text, metadata
oracle, reference function lookup."""
import math

from . import bootstrap, model, render, build_api
from .gen import ELEMENT_TABLE
from .pairtab import strip_has
from .num import Jet, DomainError

bootstrap.activate()
import atsim.potentials as ap  # noqa: E402
from atsim.potentials.referencedata import _data as _refdata  # noqa: E402

ZERO_PD = {"ranges": [{"m": None, "s": None, "body": {"k": "form", "name": "zero", "p": []}}]}


def element_set(m):
    s = set(a for a, _ in m["embed"])
    if "density_fs" in m:
        for a, b, _ in m["density_fs"]:
            s.add(a)
            s.add(b)
    else:
        s.update(a for a, _ in m["density"])
    return s


def metadata(m, el):
    """(Z, mass, lattice constant, lattice type) = [Species] override, else built-in table, else default"""
    ov = {}
    for s, p, v in m.get("species", []):
        if s == el:
            ov[p] = v
    builtin = _refdata.reference_data.get(el)
    if builtin is not None and el in ELEMENT_TABLE:
        z, mass = ELEMENT_TABLE[el]
        if builtin.atomic_number != z or abs(builtin.atomic_mass - mass) > 0.005 * mass:
            raise AssertionError("built-in element table disagrees with the cross-check table for %s" % el)
    Z = ov.get("atomic_number", builtin.atomic_number if builtin else None)
    mass = ov.get("atomic_mass", builtin.atomic_mass if builtin else None)
    a = ov.get("lattice_constant", 0.0)
    lat = ov.get("lattice_type", "fcc")
    return Z, mass, a, lat


def lookup(m):
    """dict of reference definitions by role"""
    d = {"embed": dict((a, pd) for a, pd in m["embed"]), "pair": {}, "dipole": {}, "quadrupole": {}}
    for key in ("pair", "dipole", "quadrupole"):
        for a, b, pd in m.get(key, []) or []:
            d[key][frozenset((a, b))] = pd
    if "density_fs" in m:
        d["density_fs"] = dict(((a, b), pd) for a, b, pd in m["density_fs"])
    else:
        d["density"] = dict((a, pd) for a, pd in m["density"])
    return d


def api_objects(m, order=None, wrap=None, share=False, int_zero=False, container=None, extra_keys=False):
    """(pair Potential list, EAMPotential list[, dipoles, quadrupoles]) through the Python API;
    element order = `order` or m['elements'] restricted to the element set"""
    b = build_api.Builder(m["env"])
    if share:
        # one Python callable per distinct definition, used wherever that definition occurs (a user who writes
        # f = potentialforms.bornmayer(...) once and passes f as embedding function of one element and density of another)
        built = {}
        plain = b.potdef

        def shared_potdef(pd):
            key = model.canon(pd)
            if key not in built:
                built[key] = plain(pd)
            return built[key]
        b.potdef = shared_potdef
    if int_zero:
        # plain Python callables as users write them: "if r == 0: return 0" - an int where the function vanishes,
        # floats elsewhere (embedding and density functions need no derivatives)
        inner = b.potdef

        def int_zero_potdef(pd):
            f = inner(pd)

            def g(r):
                v = f(r)
                return 0 if v == 0 else v
            return g
    if m.get("int_returns"):
        inner_ir = b.potdef
        b.potdef = lambda pd: build_api.int_returns(inner_ir(pd))
    els = order or [e for e in m["elements"] if e in element_set(m)]
    lk = lookup(m)
    zero = ap.potentialforms.zero()
    eams = []
    for e in els:
        Z, mass, a, lat = metadata(m, e)
        fpot = int_zero_potdef if int_zero else b.potdef
        emb = fpot(lk["embed"][e]) if e in lk["embed"] else zero
        if wrap is not None and e in lk["embed"]:
            emb = wrap("embed", (e,), emb)
        if "density_fs" in m:
            dens = {}
            for o in els:
                pd = lk["density_fs"].get((e, o))
                dens[o] = fpot(pd) if pd is not None else zero
                if wrap is not None and pd is not None:
                    dens[o] = wrap("density_fs", (e, o), dens[o])
            if extra_keys:
                # a density dictionary that also knows a species which is not tabulated (the objects of a ternary set
                # used for a binary table): that entry concerns no function of this file
                dens["Zq9"] = build_api.Builder({}).potdef({"ranges": [{"m": None, "s": None, "body": {"k": "form", "name": "constant", "p": [7.5]}}]})
        else:
            dens = fpot(lk["density"][e]) if e in lk["density"] else zero
            if wrap is not None and e in lk["density"]:
                dens = wrap("density", (e,), dens)
        eams.append(ap.EAMPotential(e, Z, mass, emb, dens, a, lat))
    def plist(kind):
        out_ = []
        for a, bb, pd in m[kind]:
            f = b.potdef(pd)
            if wrap is not None:
                f = wrap(kind, (a, bb), f)
            out_.append(ap.Potential(a, bb, f))
        return out_
    out = [plist("pair"), eams]
    if m["kind"] == "adp":
        out.append(plist("dipole"))
        out.append(plist("quadrupole"))
    if container in ("tuple", "iterator", "generator"):
        # the pair potentials handed over as another iterable than a list (for ONE write: an iterator is used up by it)
        conv = {"tuple": tuple, "iterator": iter, "generator": lambda l: (x for x in l)}[container]
        out[0] = conv(out[0])
        if container == "tuple":
            out[1] = tuple(out[1])
    return out


def potable_text(m, target, style=None, grid=None):
    tab = {"target": target}
    tab.update(grid if grid is not None else m["grid"])
    mm = {"tabulation": tab, "env": strip_has(m["env"]), "species": m.get("species"),
          "pair": [(a, b, strip_has(pd)) for a, b, pd in m["pair"]],
          "embed": [(a, strip_has(pd)) for a, pd in m["embed"]]}
    if "density_fs" in m:
        mm["density_fs"] = [(a, b, strip_has(pd)) for a, b, pd in m["density_fs"]]
    else:
        mm["density"] = [(a, strip_has(pd)) for a, pd in m["density"]]
    if m["kind"] == "adp":
        mm["dipole"] = [(a, b, strip_has(pd)) for a, b, pd in m["dipole"]]
        mm["quadrupole"] = [(a, b, strip_has(pd)) for a, b, pd in m["quadrupole"]]
    return render.model_text(mm, style)


def ref_value(ref, pd, x, rerr=4.0):
    """EN value of potdef (or zero when pd is None) at grid position x"""
    if pd is None:
        return Jet.const(0.0, 0).c[0]
    j, _ = model.evaluate(ref, pd, x, order=0, rerr=rerr)
    if not math.isfinite(j.v) or abs(j.v) > 1e250:
        raise DomainError("non-finite reference")
    return j.c[0]


def near_boundary(ref, pd, x):
    if pd is None:
        return False
    model.evaluate(ref, pd, x)      # DomainError here means "outside the domain", not "near a boundary"
    if x == 0.0:
        # row 0 of every table sits at exactly 0.0 (0 * step carries no rounding): which side of a boundary at 0 it
        # is on is not in doubt ('>=0 f' gives f(0), '>0 f' and a bare 'f' give 0)
        return False
    if model.on_boundary(ref, pd, x):
        # the grid position given by the format's own formula (i*step, i*cutoff/(nr-1)) IS the boundary value:
        # nothing is in doubt, the row belongs to the side the definition says ('>=s' includes s)
        return False
    return not model.same_piece(ref, pd, x, 64 * 2.3e-16 * max(1.0, abs(x)))


def grids(m):
    g = m["grid"]
    return g["nr"], g["cutoff"] / float(g["nr"] - 1), g["nrho"], g["cutoff_rho"] / float(g["nrho"] - 1)


def with_node_breaks(draw, m, formula="i*step"):
    """replace some functions of an EAM model by multi-range definitions whose break points are EXACTLY grid rows
    (the float the format's own row formula gives).  formula: 'i*step' (setfl, TABEAM: float(i) * (cutoff/(n-1)))
    or 'i*total/(n-1)' (spreadsheets)"""
    from hypothesis import strategies as st
    from . import gen
    g = m["grid"]

    def node(i, total, n):
        return float(i) * (total / float(n - 1)) if formula == "i*step" else float(i) * total / float(n - 1)

    def pdef(total, n):
        ks = draw(st.lists(st.integers(1, max(1, n - 1)), min_size=1, max_size=2, unique=True))
        return draw(gen.node_break_potdef([node(k, total, n) for k in ks]))
    for kind in ("embed", "density", "density_fs", "pair", "dipole", "quadrupole"):
        for ent in m.get(kind) or []:
            if draw(st.integers(0, 1)) == 0:
                if kind == "embed":
                    ent[-1] = pdef(g["cutoff_rho"], g["nrho"])
                else:
                    ent[-1] = pdef(g["cutoff"], g["nr"])
    m["node_breaks"] = True
    return m
