"""Whole potable models as editable section lists, and the observable outcome of
tabulating one (output bytes, configuration error, or another exception)."""
import hashlib
import io
import json

from . import bootstrap, render, libroute, parsers
from .pairtab import strip_has

bootstrap.activate()
from atsim.potentials.config import Configuration, ConfigParser  # noqa: E402
from atsim.potentials.config._common import ConfigurationException  # noqa: E402


def sections_of(m, style=None):
    """[[section name, [[key, value], ...]], ...] of a generated model (see gen.any_model)"""
    tab = {"target": m["target"]}
    tab.update(m["grid"])
    mm = {"tabulation": tab, "env": strip_has(m["env"]),
          "species": m.get("species") if m.get("kind", "pair") != "pair" else m.get("species_data")}
    if m.get("kind", "pair") == "pair":
        mm["pair"] = [(a, b, strip_has(pd)) for a, b, pd in m["pair"]]
    else:
        mm["pair"] = [(a, b, strip_has(pd)) for a, b, pd in m["pair"]]
        mm["embed"] = [(a, strip_has(pd)) for a, pd in m["embed"]]
        if "density_fs" in m:
            mm["density_fs"] = [(a, b, strip_has(pd)) for a, b, pd in m["density_fs"]]
        else:
            mm["density"] = [(a, strip_has(pd)) for a, pd in m["density"]]
        if m["kind"] == "adp":
            mm["dipole"] = [(a, b, strip_has(pd)) for a, b, pd in m["dipole"]]
            mm["quadrupole"] = [(a, b, strip_has(pd)) for a, b, pd in m["quadrupole"]]
    return [[n, [[k, v] for k, v in ents]] for n, ents in render.model_sections(mm, style)]


def text_of(secs, style=None):
    return render.sections_text([(n, [(k, v) for k, v in e]) for n, e in secs], style)


def normalise_output(target, data):
    """comparable form of a written table: text as is, workbooks as decoded cell contents"""
    if isinstance(data, bytes) and target.startswith("excel"):
        try:
            wb = parsers.xlsx(data)
        except Exception as e:
            # the file written is no workbook at all (e.g. a table of another target): an output like any other,
            # which compares unequal to every workbook
            return "NOT A WORKBOOK (%s): %r" % (type(e).__name__, data[:200])
        return json.dumps(wb, sort_keys=True, default=str)
    if isinstance(data, bytes):
        return data.decode(errors="replace")
    return data


def outcome_from_parser(make_cp, target):
    """tabulate through a ConfigParser factory -> ("ok", normalised output) | ("config_error", msg) |
    ("exception", 'Type@frame: msg')"""
    try:
        cp = make_cp()
        tab = Configuration().read_from_parser(cp)
        out = libroute.write_text(tab)
        return ("ok", normalise_output(tab.target if target is None else target, out))
    except ConfigurationException as e:
        return ("config_error", str(e))
    except Exception as e:
        return ("exception", "%s@%s: %s" % (type(e).__name__, libroute.innermost_atsim_frame(e), e))


def outcome(text, target):
    return outcome_from_parser(lambda: ConfigParser(io.StringIO(text)), target)


def cli_outcome(text, target, args, inproc=False):
    """the real command line (child process, or potable.main() called in this process) -> same triple shape as outcome()"""
    name = "out.xlsx" if target.startswith("excel") else "out.tab"
    res = (libroute.run_potable_main if inproc else libroute.run_potable)(list(args), text, outname=name)
    if res["rc"] == 0 and res["out"] is not None:
        return ("ok", normalise_output(target, res["out"] if target.startswith("excel") else res["out"].decode(errors="replace")))
    if res["rc"] == 2 and "configuration error" in res["stderr"]:
        return ("config_error", res["stderr"].strip().splitlines()[-1])
    return ("exception", "rc=%r %s" % (res["rc"], res["stderr"][-400:]))


def same_outcome(a, b):
    """equal outputs, or both refused as configuration errors"""
    if a[0] != b[0]:
        return False
    if a[0] == "ok":
        return a[1] == b[1]
    return a[0] == "config_error"


def digest(s):
    return hashlib.sha1(s.encode() if isinstance(s, str) else s).hexdigest()[:12]


def species_of_key(section, key):
    """species labels an entry of a filterable section mentions"""
    k = "".join(key.split())
    if section == "Pair":
        return k.split("-")
    if section == "EAM-Embed":
        return [k]
    if section == "EAM-Density":
        return k.split("->") if "->" in k else [k]
    return None
