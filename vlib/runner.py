"""Runner shared by every check: tiers, seeds, collect-then-shrink buckets,
known findings, replay files, evidence.

A check module provides
    ID, LEVEL, RULE, ASSUMPTIONS
    strategy(tier)              -> hypothesis strategy of JSON cases
    check_case(case)            -> {"v": [(bucket, detail), ...], "cls": [labels], "nt": bool}
    budget(tier)                -> {"examples": N, "shards": k}
optionally
    extra(tier, seed, record)   -> further generated/enumerated cases outside Hypothesis
                                   (record(case, result) for each); may return dict merged
                                   into coverage
    REQUIRED                    -> {class label: minimum count (quick tier)} sanity floor
    validate(case)              -> bool, structural validity of a (shrunk) case
Exit status: 0 held / only known findings, 1 unlisted violation, 2 harness error.
"""
import hashlib
import importlib
import json
import multiprocessing
import os
import sys
import time
import traceback

from . import bootstrap

VERIF = bootstrap.VERIF
# where evidence/ and replays/ are written; sensitivity runs against a scratch tree
# (VERIF_REPO=...) point this elsewhere so the committed evidence is never overwritten
OUT = os.environ.get("VERIF_OUT", VERIF)
WORK = os.path.join(VERIF, ".work")
CHECKS = {
    "C01": "checks.c01_lammps_table", "C02": "checks.c02_dlpoly_table", "C03": "checks.c03_setfl",
    "C04": "checks.c04_fs_routing", "C05": "checks.c05_tabeam", "C06": "checks.c06_builtin_forms",
    "C07": "checks.c07_derivatives", "C08": "checks.c08_multirange", "C09": "checks.c09_language",
    "C10": "checks.c10_splines", "C11": "checks.c11_grid", "C12": "checks.c12_determinism",
    "C13": "checks.c13_filtering", "C14": "checks.c14_overrides", "C15": "checks.c15_variables",
    "C16": "checks.c16_malformed", "C17": "checks.c17_atomic_write", "C18": "checks.c18_tables",
    "C19": "checks.c19_other_targets", "C20": "checks.c20_duplicates",
}


def canon(x):
    return json.dumps(x, sort_keys=True, separators=(",", ":"), allow_nan=True)


def case_hash(x):
    return hashlib.sha1(canon(x).encode()).hexdigest()[:16]


class Collector(object):
    def __init__(self):
        self.evaluations = 0
        self.nontrivial = set()
        self.classes = {}
        self.buckets = {}      # bucket -> {"case":..., "detail":..., "count": n}
        self.samples = []
        self.skipped = 0
        self.extra_cov = {}

    def record(self, case, res):
        # a case may stand for several executions (e.g. every fault position of one model):
        # "evals" counts them and "nt_keys" names the non-trivial ones individually
        self.evaluations += int(res.get("evals", 1))
        if res.get("skip"):
            self.skipped += 1
        for c in res.get("cls", ()):
            self.classes[c] = self.classes.get(c, 0) + 1
        if res.get("nt_keys"):
            h = case_hash(case)
            for k in res["nt_keys"]:
                self.nontrivial.add("%s:%s" % (h, k))
        elif res.get("nt"):
            self.nontrivial.add(case_hash(case))
        if res.get("nt") or res.get("nt_keys"):
            if len(self.samples) < 3 or (len(self.samples) < 6 and self.evaluations % 37 == 0):
                self.samples.append(case)
        for bucket, detail in res.get("v", ()):
            b = self.buckets.get(bucket)
            if b is None:
                self.buckets[bucket] = {"case": case, "detail": detail, "count": 1}
            else:
                b["count"] += 1
                if len(canon(case)) < len(canon(b["case"])):
                    b["case"], b["detail"] = case, detail

    def dump(self):
        return {"evaluations": self.evaluations, "nontrivial": sorted(self.nontrivial),
                "classes": self.classes, "buckets": self.buckets, "samples": self.samples,
                "skipped": self.skipped, "extra_cov": self.extra_cov}

    def merge(self, d):
        self.evaluations += d["evaluations"]
        self.nontrivial.update(d["nontrivial"])
        self.skipped += d["skipped"]
        for k, v in d["classes"].items():
            self.classes[k] = self.classes.get(k, 0) + v
        for k, b in d["buckets"].items():
            if k not in self.buckets:
                self.buckets[k] = b
            else:
                self.buckets[k]["count"] += b["count"]
                if len(canon(b["case"])) < len(canon(self.buckets[k]["case"])):
                    self.buckets[k]["case"], self.buckets[k]["detail"] = b["case"], b["detail"]
        for s in d["samples"]:
            if len(self.samples) < 6:
                self.samples.append(s)
        for k, v in d.get("extra_cov", {}).items():
            if isinstance(v, (int, float)) and isinstance(self.extra_cov.get(k), (int, float)):
                self.extra_cov[k] += v
            else:
                self.extra_cov[k] = v


def load_module(pid):
    bootstrap.activate()
    if VERIF not in sys.path:
        sys.path.insert(0, VERIF)
    mod = importlib.import_module(CHECKS[pid])
    if not getattr(mod, "_domain_wrapped", False):
        inner = mod.check_case

        def check_case(case):
            # vlib.num.DomainError is the harness's own exception: it can only come out of the library when a
            # callable the HARNESS built for an API route (reference arithmetic behind custom formulas) left the
            # domain of the reference, e.g. the slope of hypot(0, 0).  Such a model is outside the check.
            res = inner(case)
            if any(":DomainError@" in bk or bk.endswith(":DomainError") for bk, _ in res.get("v", ())):
                return {"v": [], "cls": list(res.get("cls", [])) + ["skipped:harness_callable_outside_reference_domain"],
                        "nt": False, "skip": True}
            return res
        mod.check_case = check_case
        mod._domain_wrapped = True
    return mod


def _hyp_run(mod, tier, seed, examples, col, deadline_s=None):
    """run the module's strategy; modules may stratify generation by providing
    strata(tier) -> [(name, strategy, weight)]: each stratum gets its share of the
    example budget and its own derived seed, so coverage of every stratum is by
    construction rather than left to Hypothesis' novelty search"""
    if hasattr(mod, "strata"):
        strata = mod.strata(tier)
        tot = float(sum(w for _, _, w in strata))
        hit = False
        for i, (name, strat, w) in enumerate(strata):
            n = max(1, int(round(examples * w / tot)))
            hit = _hyp_run_one(mod, strat, seed * 101 + i, n, col, deadline_s) or hit
        return hit
    return _hyp_run_one(mod, mod.strategy(tier), seed, examples, col, deadline_s)


class CaseTimeout(BaseException):
    """a single case exceeded the per-case wall clock guard (inconclusive, never a violation)"""


CASE_LIMIT_S = int(os.environ.get("VERIF_CASE_LIMIT_S", "600"))


def guard_resources():
    """A runaway library (e.g. a row loop that never terminates) must not take the machine down: address space
    is capped so that it surfaces as a deterministic MemoryError inside the case (an exception escaping from the
    code under test, reported like any other), not as a frozen check."""
    import resource
    gb = float(os.environ.get("VERIF_MEM_GB", "8"))
    try:
        soft, hard = resource.getrlimit(resource.RLIMIT_AS)
        cap = int(gb * 1024 ** 3)
        if hard != resource.RLIM_INFINITY:
            cap = min(cap, hard)
        resource.setrlimit(resource.RLIMIT_AS, (cap, hard))
    except Exception:
        pass


def _guarded(mod, case):
    """check_case under a wall clock guard (main thread only)"""
    import signal
    import threading
    if threading.current_thread() is not threading.main_thread() or not hasattr(signal, "SIGALRM"):
        return mod.check_case(case)

    def onalarm(signum, frame):
        raise CaseTimeout()
    old = signal.signal(signal.SIGALRM, onalarm)
    signal.alarm(CASE_LIMIT_S)
    try:
        return mod.check_case(case)
    finally:
        signal.alarm(0)
        signal.signal(signal.SIGALRM, old)


def _hyp_run_one(mod, strategy, seed, examples, col, deadline_s=None):
    import hypothesis
    from hypothesis import given, settings, HealthCheck, Phase
    t_end = None if deadline_s is None else time.time() + deadline_s
    state = {"budget_hit": False}

    @hypothesis.seed(seed)
    @settings(max_examples=examples, database=None, deadline=None, derandomize=False,
              suppress_health_check=list(HealthCheck), phases=[Phase.generate],
              report_multiple_bugs=False)
    @given(strategy)
    def prop(case):
        if t_end is not None and time.time() > t_end:
            state["budget_hit"] = True
            return
        try:
            res = _guarded(mod, case)
        except CaseTimeout:
            # inconclusive: remember the case, stop generating (the run ends with a harness error, exit 2)
            col.extra_cov.setdefault("timed_out_cases", []).append(case)
            state["budget_hit"] = True
            state["timeout"] = True
            return
        col.record(case, res)

    prop()
    if state.get("timeout"):
        col.extra_cov["case_timeout_s"] = CASE_LIMIT_S
    return state["budget_hit"]


def _shard(args):
    pid, tier, seed, examples, deadline_s = args
    try:
        guard_resources()
        mod = load_module(pid)
        col = Collector()
        hit = _hyp_run(mod, tier, seed, examples, col, deadline_s)
        d = col.dump()
        d["budget_hit"] = hit
        return d
    except Exception:
        return {"error": traceback.format_exc()}


def load_known():
    p = os.path.join(VERIF, "known_findings.json")
    if not os.path.exists(p):
        return []
    with open(p) as f:
        return json.load(f)


def match_known(known, pid, bucket):
    import re
    for k in known:
        if k.get("property") != pid or k.get("status") != "known":
            continue
        if k.get("bucket") == bucket:
            return k
        if k.get("bucket_re") and re.fullmatch(k["bucket_re"], bucket):
            return k
    return None


def run_check(pid, tier, seed):
    t0 = time.time()
    guard_resources()
    mod = load_module(pid)
    bud = mod.budget(tier)
    col = Collector()
    budget_hit = False
    shards = bud.get("shards", 1)
    deadline_s = bud.get("deadline_s")
    if shards <= 1:
        budget_hit = _hyp_run(mod, tier, seed, bud["examples"], col, deadline_s)
    else:
        jobs = [(pid, tier, seed * 1000 + i, bud["examples"], deadline_s) for i in range(shards)]
        ctx = multiprocessing.get_context("spawn")
        with ctx.Pool(min(shards, os.cpu_count() or 1)) as pool:
            for d in pool.imap_unordered(_shard, jobs):
                if "error" in d:
                    raise RuntimeError("shard failed:\n" + d["error"])
                budget_hit = budget_hit or d.pop("budget_hit", False)
                col.merge(d)
    if hasattr(mod, "extra"):
        cov = mod.extra(tier, seed, col.record)
        if cov:
            col.extra_cov.update(cov)
    col.extra_cov["regression_replays"] = _replay_tier(pid, mod, col)
    return finish(pid, mod, tier, seed, col, t0, budget_hit)


def _replay_tier(pid, mod, col):
    """seconds-long tier: every committed replay file of this property (shrunk inputs of defects that have been
    repaired, and of corrected false alarms) goes through check_case again, bypassing Hypothesis"""
    import glob
    n = 0
    for p in sorted(glob.glob(os.path.join(VERIF, "replays", pid, "*.json"))):
        try:
            with open(p) as f:
                d = json.load(f)
            case = d["case"]
        except Exception:
            continue
        res = mod.check_case(case)
        res = dict(res, cls=list(res.get("cls", [])) + ["regression_replay"])
        col.record(case, res)
        n += 1
    return n


def finish(pid, mod, tier, seed, col, t0, budget_hit=False):
    known = load_known()
    new_violation = False
    lines = []
    viol_count = 0
    os.makedirs(os.path.join(OUT, "replays", pid), exist_ok=True)
    for bucket in sorted(col.buckets):
        b = col.buckets[bucket]
        k = match_known(known, pid, bucket)
        if k is not None:
            lines.append("KNOWN-FINDING: property=%s %s [bucket %s, %d cases]" % (pid, k["what"], bucket, b["count"]))
            continue
        viol_count += 1
        case = b["case"]
        original = case
        # shrink (bounded) -- interesting = same bucket still reported
        try:
            from .shrink import shrink
            valid = getattr(mod, "validate", lambda c: True)

            def interesting(c, bucket=bucket):
                if not valid(c):
                    return False
                r = mod.check_case(c)
                return any(bk == bucket for bk, _ in r.get("v", ()))
            small, evals = shrink(case, interesting, max_evals=250 if tier == "quick" else 1500,
                                  max_seconds=40 if tier == "quick" else 240)
            r = mod.check_case(small)
            det = [d for bk, d in r.get("v", ()) if bk == bucket]
            detail = det[0] if det else b["detail"]
            case = small
        except Exception:
            detail = b["detail"]
        path = os.path.join("replays", pid, "%s.json" % case_hash({"b": bucket, "c": case}))
        with open(os.path.join(OUT, path), "w") as f:
            json.dump({"property": pid, "bucket": bucket, "detail": detail, "case": case,
                       "seed": seed, "tier": tier, "unshrunk_case": original}, f, indent=1, sort_keys=True)
        lines.append("VIOLATION property=%s replay=%s" % (pid, path))
        lines.append("  bucket: %s (%d cases)\n  detail: %s" % (bucket, b["count"], str(detail)[:2000]))
        new_violation = True
    # sanity floor on the distribution
    harness_err = None
    req = dict(getattr(mod, "REQUIRED", {}))
    # the floors actually enforced were measured: 40 % of the smallest count seen for that class over a
    # six-seed sweep of the quick tier (checks/required_floors.json); the module's own number is the intent,
    # the measured one keeps a fluctuation of the generator from being reported as a harness error
    try:
        with open(os.path.join(VERIF, "checks", "required_floors.json")) as f:
            measured = json.load(f).get(pid, {})
        for cls in req:
            if measured.get(cls):
                req[cls] = min(req[cls], measured[cls])
    except Exception:
        pass
    if tier == "quick" or True:
        for cls, minimum in req.items():
            if col.classes.get(cls, 0) < minimum:
                harness_err = "class %r occurred %d times (< %d): generator is not reaching it" % (
                    cls, col.classes.get(cls, 0), minimum)
    nt = len(col.nontrivial)
    cov = {
        "evaluations": col.evaluations,
        "distinct_nontrivial": nt,
        "rule": mod.RULE,
        "samples": col.samples[:4] if col.samples else [],
        "classes": dict(sorted(col.classes.items())),
        "skipped_out_of_domain": col.skipped,
        "buckets": dict((k, v["count"]) for k, v in col.buckets.items()),
        "inconclusive_budget": bool(budget_hit),
    }
    cov.update(col.extra_cov)
    ev = {
        "property_id": pid, "tier": tier, "seed": seed, "level": mod.LEVEL,
        "coverage": cov, "assumptions": list(getattr(mod, "ASSUMPTIONS", [])),
        "wall_s": round(time.time() - t0, 2), "violations": viol_count,
    }
    os.makedirs(os.path.join(OUT, "evidence"), exist_ok=True)
    with open(os.path.join(OUT, "evidence", pid + ".json"), "w") as f:
        json.dump(ev, f, indent=1, sort_keys=True, default=str)
    for ln in lines:
        print(ln)
    print("%s tier=%s seed=%d evaluations=%d distinct_nontrivial=%d skipped=%d buckets=%d wall=%.1fs" % (
        pid, tier, seed, col.evaluations, nt, col.skipped, len(col.buckets), time.time() - t0))
    if new_violation:
        # a reproduced violation stands on its own replay file; distribution floors only
        # guard against vacuous *passes*
        return 1
    if col.extra_cov.get("timed_out_cases"):
        print("HARNESS-ERROR: a case exceeded the %d s per-case guard (inconclusive; case kept in the evidence "
              "under coverage.timed_out_cases)" % CASE_LIMIT_S)
        return 2
    if harness_err:
        print("HARNESS-ERROR: " + harness_err)
        return 2
    if nt < 2 or not col.samples:
        print("HARNESS-ERROR: fewer than 2 distinct non-trivial cases")
        return 2
    return 0


def replay(pid, path):
    mod = load_module(pid)
    with open(path if os.path.isabs(path) else os.path.join(VERIF, path)) as f:
        data = json.load(f)
    case = data["case"] if isinstance(data, dict) and "case" in data else data
    res = mod.check_case(case)
    known = load_known()
    bad = False
    for bucket, detail in res.get("v", ()):
        k = match_known(known, pid, bucket)
        if k is not None:
            print("KNOWN-FINDING: property=%s %s [bucket %s]" % (pid, k["what"], bucket))
        else:
            print("VIOLATION property=%s replay=%s" % (pid, path))
            print("  bucket: %s\n  detail: %s" % (bucket, str(detail)[:4000]))
            bad = True
    if not res.get("v"):
        print("%s replay %s: property held" % (pid, path))
    return 1 if bad else 0
