"""Generic, deterministic shrinker for JSON cases.

`interesting(case) -> bool` must be total (exceptions count as not interesting).
Passes: delete list items, hoist sub-structures of the same shape, simplify
numbers.  Bounded by an evaluation budget and wall clock.
"""
import copy
import json
import time


def _paths(x, pre=()):
    yield pre, x
    if isinstance(x, dict):
        for k in sorted(x):
            for p in _paths(x[k], pre + (k,)):
                yield p
    elif isinstance(x, list):
        for i, v in enumerate(x):
            for p in _paths(v, pre + (i,)):
                yield p


def _get(x, path):
    for p in path:
        x = x[p]
    return x


def _set(x, path, v):
    if not path:
        return v
    x = copy.deepcopy(x)
    y = x
    for p in path[:-1]:
        y = y[p]
    y[path[-1]] = v
    return x


def _shape(x):
    if isinstance(x, dict):
        if "ranges" in x:
            return "potdef"
        if "k" in x:
            return "simple"
        if "o" in x:
            return "expr"
        return "dict:" + ",".join(sorted(x))
    return type(x).__name__


def _candidates(case):
    # 1. delete list items (largest structures first)
    items = [(p, v) for p, v in _paths(case) if isinstance(v, list) and len(v) > 0]
    items.sort(key=lambda pv: -len(json.dumps(pv[1])))
    for p, v in items:
        if len(v) > 4:
            yield _set(case, p, v[:len(v) // 2])
            yield _set(case, p, v[len(v) // 2:])
        for i in range(len(v)):
            yield _set(case, p, v[:i] + v[i + 1:])
    # 2. hoist: replace a node by a descendant of the same shape
    for p, v in _paths(case):
        if isinstance(v, dict):
            sh = _shape(v)
            if sh in ("potdef", "simple", "expr"):
                for q, w in _paths(v):
                    if q and isinstance(w, dict) and _shape(w) == sh:
                        yield _set(case, p, w)
    # 3. numbers
    for p, v in _paths(case):
        if isinstance(v, bool):
            continue
        if isinstance(v, float):
            for c in (0.0, 1.0, float(round(v)), round(v, 1), round(v, 3)):
                if c != v:
                    yield _set(case, p, c)
        elif isinstance(v, int) and v not in (0, 1):
            for c in (0, 1, v // 2):
                if c != v:
                    yield _set(case, p, c)


def shrink(case, interesting, max_evals=400, max_seconds=90.0):
    t0 = time.time()
    evals = 0
    best = case
    size = len(json.dumps(best))
    improved = True
    while improved:
        improved = False
        for cand in _candidates(best):
            if evals >= max_evals or time.time() - t0 > max_seconds:
                return best, evals
            s = len(json.dumps(cand))
            if s >= size and cand != best:
                # only accept same-size candidates from the number pass when simpler
                if s > size:
                    continue
            evals += 1
            try:
                ok = interesting(cand)
            except Exception:
                ok = False
            if ok and (s < size or _simpler(cand, best)):
                best, size = cand, s
                improved = True
                break
    return best, evals


def _simpler(a, b):
    return json.dumps(a, sort_keys=True) < json.dumps(b, sort_keys=True) and \
        len(json.dumps(a)) <= len(json.dumps(b))
