"""Rewrite histories shared by the table checks: the same model objects (and, for the text formats, the same
tabulation object) are written several times while ONE function of the model - a stateful Python callable k * f(r) -
is re-parametrised in between, as a fitting loop does.  Every file must hold the model as it is when that file is
written: nothing tabulated for an earlier write may be re-used for a later one."""
import copy

from hypothesis import strategies as st

from . import build_api

KS = [1.0, 2.0, -1.0, 0.5, 3.0, 0.1, -2.5]
SLOTS = ("pair", "embed", "density", "density_fs", "dipole", "quadrupole")


def slots(m):
    """[(kind, index)] of every declared function of an EAM / pair model"""
    out = []
    for kind in SLOTS:
        for i in range(len(m.get(kind) or [])):
            out.append((kind, i))
    return out


@st.composite
def plan(draw, m):
    sl = slots(m)
    kind, idx = draw(st.sampled_from(sl))
    ks = draw(st.lists(st.sampled_from(KS), min_size=2, max_size=3).filter(lambda l: all(a != b for a, b in zip(l, l[1:]))))
    return {"kind": kind, "index": idx, "ks": ks, "same_object": draw(st.booleans())}


def key_of(m, rw):
    ent = m[rw["kind"]][rw["index"]]
    return tuple(ent[:-1])


def scaled_model(m, rw, k):
    mm = copy.deepcopy(m)
    ent = mm[rw["kind"]][rw["index"]]
    ent[-1] = build_api.scaled_potdef(ent[-1], k)
    return mm


class Wrapper(object):
    """wrap(kind, key, f) hook for eamtab.api_objects / pair builders: replaces the chosen function by a Scaled one"""

    def __init__(self, m, rw):
        self.kind, self.key = rw["kind"], key_of(m, rw)
        self.holders = []

    def __call__(self, kind, key, f):
        if kind == self.kind and tuple(key) == self.key:
            h = build_api.scaled(f)
            self.holders.append(h)
            return h
        return f

    def set(self, k):
        for h in self.holders:
            h.k = k


def describe(m, rw, n, k):
    return "write number %d from the same model objects (%s), %s function %s re-parametrised to k=%r before it" % (
        n + 1, "one tabulation object" if rw.get("same_object") else "a fresh tabulation object / function call each time",
        rw["kind"], "-".join(str(x) for x in key_of(m, rw)), k)
