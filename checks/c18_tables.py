"""C18 -- tabulated input is reproduced at its data points and is zero outside its range.

Strata
  table   [Table-Form] / Cubic_Spline_Table_Form: strictly increasing uneven x (4..200 points), finite y;
          passes through every datum, exactly 0 outside [x_min, x_max], deriv / deriv2 are the derivatives of
          the interpolant (8th-order difference inside knot intervals), x/y lists == xy pairs (identical
          floats), the same through potable text and [Pair]
  reader  TableReader on generated files (comments, blank lines, tabs and several blanks, unsorted rows,
          extra columns, with / without final newline): tabulated y at tabulated x, the linear interpolant
          in between (hence between the neighbouring y), 0 outside
  plot    plot / plotToFile / plotPotentialObject(ToFile): exactly `steps` rows at
          x_i = lowx + i*(highx-lowx)/steps with y_i = f(x_i)
"""
import io
import math
import os
import tempfile

from hypothesis import strategies as st

from vlib import bootstrap, gen, render, libroute
from vlib.d8 import d8

bootstrap.activate()
import atsim.potentials as ap  # noqa: E402
from atsim.potentials import tableforms  # noqa: E402

ID = "C18"
LEVEL = "exploration"
RULE = ("Stratified Hypothesis generation: (table) 4..200 strictly increasing unevenly spaced x with finite y and "
        "query points at, between and outside the data; (reader) a list of (x, y) rows rendered into a text file "
        "with generated noise (comment and blank lines, tabs, shuffled rows, extra columns, optional final newline); "
        "reader x axes also in other units (x 10^-12..10^6) and generated look-up sequences on one reader; "
        "(plot) a function, a range and a step count. Non-trivial = table with uneven spacing and a query strictly "
        "between two data points / reader file with at least two features / plot with lowx != 0; distinct = "
        "canonical JSON.")
ASSUMPTIONS = [
    "interior values of a table form are whatever the cubic interpolant gives: only the data points, the outside "
    "and the consistency of deriv/deriv2 with the value are constrained",
    "TableReader files are well-formed numeric rows (two or more columns); malformed rows are outside the statement",
]
REQUIRED = {"stratum:table": 60, "stratum:reader": 60, "stratum:plot": 40, "reader:no_final_newline": 15,
            "reader:unsorted": 15, "reader:x_scaled": 20, "table:x_scaled": 8, "table:x_scaled:1e-10": 4, "table:x_scaled:far_from_origin": 4, "reader:inside_node_inside": 10, "reader:other_interval_then_node_then_inside": 15, "reader:comments": 15, "plot:end_point_inexact": 8, "plot:quotient_inexact": 10, "reader:other_number_spellings": 15, "table:xy": 15, "table:y_before_x": 4, "table:x_y": 15, "table:potable": 20}


@st.composite
def _table_case(draw, maxpts, xmaps=((0.0, 1.0),)):
    t = draw(gen.table_form("tabq", draw(st.sampled_from([6, 12, maxpts]))))
    lo, hi = t["x"][0], t["x"][-1]
    qs = draw(st.lists(gen.fl(lo - 1.0, hi + 1.0), min_size=3, max_size=8))
    # the x axis in other units: the same table with every x times a power of ten
    # ... or shifted far from the origin with a fine spacing (1000.00, 1000.01, ...): x' = a + b*x
    a, b = draw(st.sampled_from(list(xmaps)))
    if (a, b) != (0.0, 1.0):
        xs = [a + x * b for x in t["x"]]
        if all(p < q for p, q in zip(xs, xs[1:])):
            t["x"] = xs
            qs = [a + q * b for q in qs]
        else:
            a, b = 0.0, 1.0
    return {"kind": "table", "table": t, "queries": qs, "potable": draw(st.booleans()), "xmap": [a, b]}


@st.composite
def _sequence(draw, n):
    """look-ups on one reader: free sequences, and walks that enter an interval through one of its tabulated end
    points after having been inside ANOTHER interval (inside j - node of i - inside i)"""
    hi = max(0, n - 2)
    inside = st.sampled_from([0.3, 0.5, 0.75])
    free = st.lists(st.tuples(st.integers(0, hi), st.sampled_from([0.0, 0.0, 1.0, 0.3, 0.5, 0.75])).map(list), min_size=3, max_size=10)
    if hi < 1 or draw(st.booleans()):
        return draw(free)
    seq = []
    for _ in range(draw(st.integers(1, 3))):
        j = draw(st.integers(0, hi))
        i = draw(st.integers(0, hi).filter(lambda k: k != j))
        seq.append([j, draw(inside)])
        # the node is the lower end of interval i, or the upper end of the interval below it
        seq.append([i, 0.0] if i == 0 or draw(st.booleans()) else [i - 1, 1.0])
        seq.append([i, draw(inside)])
    return seq


@st.composite
def _reader_case(draw):
    n = draw(st.integers(2, 25))
    xs = draw(st.lists(gen.fl(-5.0, 40.0), min_size=n, max_size=n, unique=True))
    # the x axis in other units (metres instead of Angstrom, ...): the same table, every x times a power of ten
    xexp = draw(st.sampled_from([0, 0, 0, -10, -12, -3, 6]))
    if xexp:
        xs = [x * 10.0 ** xexp for x in xs]
        if len(set(xs)) != len(xs):
            xexp, xs = 0, draw(st.lists(gen.fl(-5.0, 40.0), min_size=n, max_size=n, unique=True))
    ys = draw(st.lists(gen.number(-100, 100), min_size=n, max_size=n))
    rows = list(zip(xs, ys))
    feats = draw(st.lists(st.sampled_from(["comments", "blank", "tabs", "unsorted", "extra_column", "no_final_newline",
                                           "leading_blanks", "crlf_free_trailing_blanks", "other_number_spellings", "other_number_spellings"]), max_size=5, unique=True))
    if "unsorted" in feats:
        rows = list(draw(st.permutations(rows)))
    else:
        rows.sort()
    return {"kind": "reader", "rows": [list(r) for r in rows], "features": sorted(feats),
            "queries": [q * 10.0 ** xexp for q in draw(st.lists(gen.fl(-7.0, 42.0), min_size=3, max_size=8))],
            "xexp": xexp,
            # look-ups on ONE reader in this order: [interval, position in it] with 0 and 1 the tabulated ends
            "sequence": draw(_sequence(n)),
            "noise_at": draw(st.lists(st.integers(0, 30), min_size=0, max_size=4))}


def _inexact_ends():
    """(lowx, highx, steps) from round numbers for which lowx + steps*((highx-lowx)/steps) does not land on highx in
    floating point (below or above it): whatever derives the number of rows from that sum gets it wrong there"""
    out = []
    for lowx in (0, 0.1, 0.2, 0.5, 1.0, 0.3, 0.7):
        for highx in (1.0, 2.0, 3, 4.0, 6.0, 6.5, 12, 15.0, 2.5, 10.0):
            for steps in (3, 5, 7, 10, 20, 100, 1000, 5000, 10000):
                if highx > lowx and lowx + steps * ((highx - lowx) / float(steps)) != highx:
                    out.append((lowx, highx, steps))
    return out


INEXACT_ENDS = _inexact_ends()


def _inexact_quotients():
    """(lowx, highx, steps) from round numbers for which (highx-lowx)/step, with step = (highx-lowx)/steps, does not
    come back as steps in floating point: whatever derives the number of rows from that quotient (a ceil(), an
    arange()) gets it wrong there"""
    out = []
    for lowx in (0, 0.1, 0.4, 0.5, 1.0, 3.0, 4.7):
        for highx in (1.0, 2.0, 3, 4.0, 6.0, 6.5, 8.5, 9.4, 10.0, 11.3, 12, 15.0):
            for steps in (3, 5, 7, 10, 20, 50, 100, 500, 999, 1000, 5000):
                if highx > lowx:
                    step = (highx - lowx) / float(steps)
                    if (highx - lowx) / step != steps:
                        out.append((lowx, highx, steps))
    # quotients above and below the step count in turn (sampled_from favours the start of a list)
    above = [t for t in out if (t[1] - t[0]) / ((t[1] - t[0]) / float(t[2])) > t[2]]
    below = [t for t in out if t not in above]
    mixed = []
    for i in range(max(len(above), len(below))):
        mixed += above[i:i + 1] + below[i:i + 1]
    return mixed


INEXACT_QUOTIENTS = _inexact_quotients()


@st.composite
def _plot_case(draw, special=None):
    # lower limits of zero (int, float, minus zero) and below, for the forms that are regular there; round and
    # arbitrary extents; step counts from 1 to the default 10000
    lowx = draw(st.one_of(st.sampled_from([0, 0.0, -0.0, 0.1, 0.2, 0.5, 1.0, -1.0, 1]), gen.fl(0.05, 5.0)))
    regular = lowx <= 0
    form = draw(gen.form_leaf(["morse", "polynomial", "bornmayer"] if regular else ["buck", "morse", "polynomial", "lj", "bornmayer"]))
    highx = draw(st.one_of(st.sampled_from([1.0, 2.0, 3, 4.0, 6.0, 6.5, 12, 15.0]).filter(lambda h: h > lowx),
                           gen.fl(0.1, 20.0).map(lambda d: lowx + d)))
    steps = draw(st.one_of(st.integers(1, 120), st.sampled_from([3, 5, 10, 20, 100, 1000, 5000, 10000])))
    special = draw(st.integers(0, 3)) if special is None else special
    if special < 2:
        lowx, highx, steps = draw(st.sampled_from(INEXACT_ENDS if special == 0 else INEXACT_QUOTIENTS))
        form = draw(gen.form_leaf(["morse", "polynomial", "bornmayer"]))
    return {"kind": "plot", "form": form, "lowx": lowx, "highx": highx, "steps": steps,
            "route": draw(st.sampled_from(["plotToFile", "plot", "plotPotentialObjectToFile", "plotPotentialObject"]))}


def strategy(tier):
    return _table_case(40)


def strata(tier):
    n = 40 if tier == "quick" else 200
    return [("table", _table_case(n), 2.4), ("table:x_1e-10", _table_case(n, [(0.0, 1e-10)]), 0.5),
            ("table:x_far_from_origin", _table_case(n, [(1000.0, 0.01), (1000.0, 0.01), (5000.0, 0.001)]), 0.5),
            ("table:x_other_units", _table_case(n, [(0.0, 1e-3), (0.0, 1e4)]), 0.6), ("reader", _reader_case(), 4), ("plot", _plot_case(), 1.5),
            ("plot:quotient_inexact", _plot_case(1), 0.6)]


def budget(tier):
    if tier == "quick":
        return {"examples": 400}
    return {"examples": 2500, "shards": 16}


# ---- table forms -------------------------------------------------------------
def _check_table(case):
    t = case["table"]
    xs, ys = t["x"], t["y"]
    v, cls = [], ["stratum:table", "table:" + ("x_y" if t["style"] in ("x_y", "y_x") else "xy")] + (["table:y_before_x"] if t["style"] == "y_x" else [])
    xmap = case.get("xmap") or [0.0, 10.0 ** case.get("xexp", 0)]
    xs_ = xmap[1]
    if xmap != [0.0, 1.0]:
        cls.append("table:x_scaled")
        cls.append("table:x_scaled:" + ("far_from_origin" if xmap[0] else "%g" % xmap[1]))
    scale = max(1.0, max(abs(y) for y in ys))
    f = tableforms.Cubic_Spline_Table_Form(xs, ys)
    fns = {"class": f}
    text = None
    if case["potable"]:
        cls.append("table:potable")
        pd = {"ranges": [{"m": ">", "s": -1000, "body": {"k": "table", "name": t["name"]}}]}
        alt = dict(t, style=("y_x" if len(t["x"]) % 2 else "x_y") if t["style"] not in ("x_y", "y_x") else "xy_cont", name="tabalt")
        pd2 = {"ranges": [{"m": ">", "s": -1000, "body": {"k": "table", "name": "tabalt"}}]}
        m = {"tabulation": {"target": "LAMMPS", "nr": 5, "cutoff": 2.0}, "env": {"custom": [], "table": [t, alt]},
             "pair": [("A", "B", pd), ("A", "A", pd2)]}
        text = render.model_text(m)
        try:
            got = libroute.functions(libroute.read_text(text))
            fns["potable"] = got["pair:A-B"]
            fns["potable_other_layout"] = got["pair:A-A"]
        except Exception as e:
            return {"v": [("table:potable:exception:%s@%s" % (type(e).__name__, libroute.innermost_atsim_frame(e)),
                           "%r\n%s" % (e, text))], "cls": cls, "nt": False}
    for name, fn in fns.items():
        # passes through every datum
        for x, y in zip(xs, ys):
            got = fn(x)
            if not abs(got - y) <= 1e-9 * scale:
                v.append(("table:datum", "%s: f(%r) = %r, datum %r\n%s" % (name, x, got, y, text or t)))
                break
        # exactly zero outside
        for x in (xs[0] - 1e-9 * xs_, xs[0] - 1.0 * xs_, math.nextafter(xs[0], -math.inf), xs[-1] + 1e-9 * xs_, xs[-1] + 3.0 * xs_,
                  math.nextafter(xs[-1], math.inf)):
            if name != "class" and x <= -1000:
                continue
            got = fn(x)
            if got != 0.0:
                v.append(("table:outside", "%s: f(%r) = %r outside [%r, %r]\n%s" % (name, x, got, xs[0], xs[-1], text or t)))
                break
    # identical floats whichever way the data were laid out / whichever route
    qs = [q for q in case["queries"]] + [0.5 * (a + b) for a, b in zip(xs, xs[1:])][:6]
    for q in qs:
        vals = dict((name, fn(q)) for name, fn in fns.items())
        if len(set(vals.values())) != 1:
            v.append(("table:layouts_differ", "at %r: %r\n%s" % (q, vals, text or t)))
            break
    # derivatives are the derivatives of the interpolant (inside knot intervals)
    inner = False
    for a, b in list(zip(xs, xs[1:]))[:8]:
        q = a + 0.37 * (b - a)
        h = (b - a) / 12.0
        inner = True
        for name, fn in fns.items():
            d1, e1 = d8(fn, q, h)
            g1 = fn.deriv(q)
            if not abs(g1 - d1) <= 50 * e1 + 1e-7 * (abs(g1) + scale / (b - a)):
                v.append(("table:deriv", "%s: deriv(%r) = %r, difference of the interpolant gives %r +- %.2g" % (name, q, g1, d1, e1)))
                break
            d2, e2 = d8(fn.deriv, q, h)
            g2 = fn.deriv2(q)
            if not abs(g2 - d2) <= 50 * e2 + 1e-7 * (abs(g2) + scale / (b - a) ** 2):
                v.append(("table:deriv2", "%s: deriv2(%r) = %r, difference of deriv gives %r +- %.2g" % (name, q, g2, d2, e2)))
                break
    steps = [b - a for a, b in zip(xs, xs[1:])]
    nt = inner and (max(steps) - min(steps) > 1e-9 * xs_)
    return {"v": v, "cls": cls, "nt": nt}


# ---- TableReader -----------------------------------------------------------------
def _other_spelling(s, i):
    """the same number as other programs (Fortran, C) print it: no zero in front of the point ('.5', '-.25'), a bare
    point after a whole number ('3.'), an explicit plus sign, a capital E"""
    t = s
    if t.startswith("0.") and len(t) > 2:
        t = t[1:]
    elif t.startswith("-0.") and len(t) > 3:
        t = "-" + t[2:]
    elif "." not in t and "e" not in t.lower() and t.lstrip("-").isdigit():
        t = t + "."
    elif i % 3 == 0 and not t.startswith("-"):
        t = "+" + t
    t = t.replace("e", "E") if i % 2 else t
    return t if float(t) == float(s) else s


def reader_text(case):
    feats = set(case["features"])
    lines = []
    for i, (x, y) in enumerate(case["rows"]):
        sep = "\t" if "tabs" in feats and i % 2 == 0 else ("   " if "tabs" in feats else " ")
        sx, sy = render.num(x), render.num(y)
        if "other_number_spellings" in feats:
            sx, sy = _other_spelling(sx, i), _other_spelling(sy, i + 1)
        line = "%s%s%s" % (sx, sep, sy)
        if "extra_column" in feats and i % 3 == 0:
            line += sep + "99.5"
        if "leading_blanks" in feats and i % 4 == 1:
            line = "  " + line
        if "crlf_free_trailing_blanks" in feats and i % 4 == 2:
            line = line + "  "
        lines.append(line)
    for k, pos in enumerate(sorted(case["noise_at"])):
        p = min(pos + k, len(lines))
        if "comments" in feats and k % 2 == 0:
            lines.insert(p, "# comment %d 1.0 2.0" % k)
        elif "blank" in feats:
            lines.insert(p, "")
    text = "\n".join(lines)
    if "no_final_newline" not in feats:
        text += "\n"
    return text


def _check_reader(case):
    v = []
    feats = case["features"]
    cls = ["stratum:reader"] + ["reader:" + f for f in feats]
    text = reader_text(case)
    rows = sorted((float(x), float(y)) for x, y in case["rows"])
    try:
        tr = ap.TableReader(io.StringIO(text))
    except Exception as e:
        return {"v": [("reader:exception:%s@%s" % (type(e).__name__, libroute.innermost_atsim_frame(e)), "%r\n%r" % (e, text))],
                "cls": cls, "nt": False}
    scale = 10.0 ** case.get("xexp", 0)
    if case.get("xexp"):
        cls.append("reader:x_scaled")
    kinds = []
    for i, f in case.get("sequence", []):
        (x0, y0), (x1, y1) = rows[i], rows[i + 1]
        q = x0 if f == 0.0 else x1 if f == 1.0 else x0 + f * (x1 - x0)
        if not (x0 <= q <= x1) or (f not in (0.0, 1.0) and not (x0 < q < x1)):
            continue
        got = tr(q)
        kinds.append("node" if f in (0.0, 1.0) else "inside")
        want = y0 if q == x0 else y1 if q == x1 else y0 + (y1 - y0) * (q - x0) / (x1 - x0)
        tol = 0.0 if f in (0.0, 1.0) else 1e-9 * max(1.0, abs(y0), abs(y1)) * max(1.0, (abs(x0) + abs(x1)) / (x1 - x0))
        if not abs(got - want) <= tol:
            v.append(("reader:sequence", "look-up number %d of the sequence %r on one reader: reader(%r) = %r, expected %r "
                      "(interval (%r, %r)..(%r, %r))\n%r" % (len(kinds), case["sequence"], q, got, want, x0, y0, x1, y1, text)))
            break
    if any(a == "inside" and b == "node" and c == "inside" for a, b, c in zip(kinds, kinds[1:], kinds[2:])):
        cls.append("reader:inside_node_inside")
    sq = case.get("sequence", [])
    if any(a[1] not in (0.0, 1.0) and c[1] not in (0.0, 1.0) and a[0] != c[0] and (b == [c[0], 0.0] or b == [c[0] - 1, 1.0])
           for a, b, c in zip(sq, sq[1:], sq[2:])):
        cls.append("reader:other_interval_then_node_then_inside")
    for x, y in rows:
        got = tr(x)
        if got != y:
            v.append(("reader:tabulated_point", "reader(%r) = %r, file has y = %r\n%r" % (x, got, y, text)))
            break
    for (x0, y0), (x1, y1) in zip(rows, rows[1:]):
        q = x0 + 0.3 * (x1 - x0)
        if not (x0 < q < x1):
            continue
        got = tr(q)
        want = y0 + (y1 - y0) * (q - x0) / (x1 - x0)
        tol = 1e-9 * max(1.0, abs(y0), abs(y1)) * max(1.0, (abs(x0) + abs(x1)) / (x1 - x0))
        if not abs(got - want) <= tol or not (min(y0, y1) - tol <= got <= max(y0, y1) + tol):
            v.append(("reader:interpolation", "reader(%r) = %r between (%r, %r) and (%r, %r); linear interpolant %r\n%r" % (
                q, got, x0, y0, x1, y1, want, text)))
            break
    lo, hi = rows[0][0], rows[-1][0]
    for q in [lo - 1e-6 * scale, lo - 3.0 * scale, hi + 1e-6 * scale, hi + 3.0 * scale] + [q for q in case["queries"] if q < lo or q > hi]:
        got = tr(q)
        if got != 0.0:
            v.append(("reader:outside", "reader(%r) = %r outside [%r, %r]\n%r" % (q, got, lo, hi, text)))
            break
    return {"v": v, "cls": cls, "nt": len(feats) >= 2}


# ---- plot helpers ---------------------------------------------------------------------
def _check_plot(case):
    from atsim.potentials import potentialforms as pf
    v, cls = [], ["stratum:plot", "plot:" + case["route"]]
    if case["lowx"] + case["steps"] * ((case["highx"] - case["lowx"]) / float(case["steps"])) != case["highx"]:
        cls.append("plot:end_point_inexact")
    if (case["highx"] - case["lowx"]) / ((case["highx"] - case["lowx"]) / float(case["steps"])) != case["steps"]:
        cls.append("plot:quotient_inexact")
    f = getattr(pf, case["form"]["name"])(*case["form"]["p"])
    lowx, highx, steps, route = case["lowx"], case["highx"], case["steps"], case["route"]
    try:
        if route == "plotToFile":
            fp = io.StringIO()
            ap.plotToFile(fp, lowx, highx, f, steps)
            out = fp.getvalue()
        elif route == "plotPotentialObjectToFile":
            fp = io.StringIO()
            ap.plotPotentialObjectToFile(fp, lowx, highx, ap.Potential("A", "B", f), steps)
            out = fp.getvalue()
        else:
            d = tempfile.mkdtemp(prefix="verif-c18-", dir="/var/tmp")
            p = os.path.join(d, "plot.dat")
            try:
                if route == "plot":
                    ap.plot(p, lowx, highx, f, steps)
                else:
                    ap.plotPotentialObject(p, lowx, highx, ap.Potential("A", "B", f), steps)
                out = open(p).read()
            finally:
                if os.path.exists(p):
                    os.remove(p)
                os.rmdir(d)
    except (OverflowError, ZeroDivisionError):
        return {"v": [], "cls": cls, "nt": False, "skip": True}
    except Exception as e:
        return {"v": [("plot:exception:%s@%s" % (type(e).__name__, libroute.innermost_atsim_frame(e)), "%r" % (e,))], "cls": cls, "nt": False}
    lines = out.split("\n")
    if lines[-1] != "":
        v.append(("plot:no_final_newline", "output does not end with a newline"))
    lines = lines[:-1]
    if len(lines) != steps:
        v.append(("plot:row_count", "%s(%r, %r, steps=%d) wrote %d rows" % (route, lowx, highx, steps, len(lines))))
        return {"v": v, "cls": cls, "nt": True}
    for i, ln in enumerate(lines):
        t = ln.split()
        if len(t) != 2:
            v.append(("plot:columns", "row %r" % ln))
            break
        x, y = float(t[0]), float(t[1])
        want = lowx + i * (highx - lowx) / steps
        if not abs(x - want) <= 4 * 2.3e-16 * max(abs(want), abs(highx), abs(lowx)):
            v.append(("plot:x", "row %d x = %r, expected lowx + i*(highx-lowx)/steps = %r" % (i, x, want)))
            break
        fy = f(x)
        if not abs(y - fy) <= 1e-12 * max(1.0, abs(fy)):
            v.append(("plot:y", "row %d y = %r, f(%r) = %r" % (i, y, x, fy)))
            break
    return {"v": v, "cls": cls, "nt": True}


def check_case(case):
    try:
        return {"table": _check_table, "reader": _check_reader, "plot": _check_plot}[case["kind"]](case)
    except Exception as e:
        frame = libroute.innermost_atsim_frame(e)
        if frame == "?":
            raise       # not raised inside the library: a harness problem
        return {"v": [("%s:exception:%s@%s" % (case["kind"], type(e).__name__, frame), "%r" % (e,))],
                "cls": ["stratum:" + case["kind"]], "nt": False}
