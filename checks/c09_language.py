import math
"""C09 -- potable model language: modifiers and custom formulas mean what is documented.

Generated: potential definitions from the documented grammar (built-in, custom
and table forms; sum/product/pow/trans/spline to depth 3; multi-range), custom
formulas over + - * / ^, exprtk and pymath functions, if(), calls to as.* and to
other custom forms with different arguments; formatting styles.
Oracle: (1) reference semantics (vlib.model.Ref) with rounding-aware tolerance;
(2) metamorphic: every formatting/ordering variant gives identical floats;
(3) differential: the same AST composed through the Python API agrees;
(4) the same definition means the same in every section that accepts one.
"""
from hypothesis import strategies as st

from vlib import bootstrap, gen, model, render, libroute, build_api
from vlib.num import DomainError, EPS

bootstrap.activate()

ID = "C09"
LEVEL = "exploration"
RULE = ("Hypothesis constructs (custom forms, table forms, a potential definition of depth <=3 with <=4 ranges, "
        "4..7 separations, two formatting styles, an ordering key) from the documented grammar. Each case is "
        "read from potable text in [Pair], [EAM-Embed], [EAM-Density] (both flavours), [EAM-ADP-Dipole] and "
        "[EAM-ADP-Quadrupole], re-read under the style variants, and composed through the Python API. "
        "A sibling definition sharing most of its text is tabulated beside it in one section and an intermediate "
        "plus()/product() result is kept and re-used as an operand through the API. "
        "Non-trivial = the definition contains a product/pow/trans/spline node, or has depth >= 2, or a custom "
        "formula that calls another custom form; distinct = distinct canonical JSON.")
ASSUMPTIONS = [
    "pow() takes exactly two arguments (the manual's three-argument example is self-inconsistent)",
    "custom formulas are rendered fully parenthesised, so exprtk precedence cannot differ from the reference",
    "table-form leaves use scipy's cubic InterpolatedUnivariateSpline as reference (what the manual names)",
    "pow bases are generated reference-positive; denominators are r, positive constants or 1+e^2",
]
REQUIRED = {"mod:sum": 20, "mod:product": 20, "mod:pow": 10, "mod:trans": 20, "mod:spline": 10,
            "custom_calls_custom": 8, "has_if": 8, "has_pymath": 8, "has_fmod": 2, "has_as_call": 8, "table_leaf": 10, "sibling:differs": 30, "sibling:one_parameter_differs:custom": 3, "trans:argument_at_or_below_zero": 5, "api:shared_operand:sum": 8,
            "api:shared_operand:product": 8}


def _style():
    return st.fixed_dictionaries({
        "delim": st.sampled_from([":", "="]), "kpost": st.integers(0, 2), "vpre": st.integers(0, 3),
        "tok": st.integers(1, 3), "cont": st.booleans(), "comments": st.booleans(),
        "inner": st.integers(0, 2), "numspell": st.booleans()})


@st.composite
def _case(draw, depth, feature=None, twin=False):
    customs = draw(gen.custom_forms(3, 2, last_feature=(None if feature == "negative_shift" else feature)))
    tables = draw(gen.table_forms(2, 12))
    if twin:
        # a formula that certainly reads both of its parameters, used by the two entries
        V = lambda n: {"o": "var", "n": n}
        shape = draw(st.sampled_from([
            {"o": "+", "a": {"o": "*", "a": V("a"), "b": V("r")}, "b": V("b0")},
            {"o": "+", "a": {"o": "/", "a": V("a"), "b": {"o": "+", "a": {"o": "num", "v": 1.0}, "b": {"o": "*", "a": V("r"), "b": V("r")}}},
             "b": {"o": "*", "a": V("b0"), "b": V("r")}},
            {"o": "*", "a": {"o": "-", "a": V("r"), "b": V("a")}, "b": {"o": "+", "a": V("b0"), "b": {"o": "num", "v": 0.25}}}]))
        customs = [c for c in customs if c["name"] != "twinf"] + [{"name": "twinf", "params": ["r", "a", "b0"], "expr": shape}]
        feature = "twin"
    if feature == "rebind":
        # a formula that calls another formula with OTHER values for parameters of the same names, and reads its own
        # parameters again after the call: each formula's parameters are its own
        V = lambda n: {"o": "var", "n": n}
        N = lambda v: {"o": "num", "v": v}
        inner = {"name": "innerf", "params": ["r", "a", "b0"], "expr": draw(st.sampled_from([
            {"o": "+", "a": {"o": "*", "a": V("a"), "b": V("r")}, "b": V("b0")},
            {"o": "*", "a": {"o": "-", "a": V("r"), "b": V("a")}, "b": {"o": "+", "a": V("b0"), "b": N(0.25)}}]))}
        call = {"o": "custom", "f": "innerf", "args": [
            {"o": "+", "a": V("r"), "b": N(draw(st.sampled_from([0.5, 0.0, 1.25])))},
            {"o": "*", "a": N(draw(st.sampled_from([2.0, 0.5, -1.0]))), "b": V("a")},
            {"o": "+", "a": V("b0"), "b": N(draw(st.sampled_from([1.0, -0.75])))}]}
        after = draw(st.sampled_from([
            {"o": "-", "a": {"o": "*", "a": V("a"), "b": V("r")}, "b": V("b0")},
            {"o": "/", "a": V("a"), "b": V("r")},
            {"o": "*", "a": V("b0"), "b": V("r")}]))
        outer = {"name": "outerf", "params": ["r", "a", "b0"], "expr": {"o": "+", "a": call, "b": after}}
        customs = [c for c in customs if c["name"] not in ("innerf", "outerf")] + [inner, outer]
        feature = "rebind_"
    pd = draw(gen.potdef(depth, customs, tables, max_ranges=4))
    if feature == "negative_shift":
        # trans(f, as.constant X) with X < 0: below r = -X the argument r + X is not positive, where a definition
        # written without a range marker does not act (C08) - whatever f would give there
        feature = None
        x = draw(st.sampled_from([-0.5, -1, -1.5, -2.5, -3]))
        inner = draw(st.one_of(gen.potdef(0, [], [], max_ranges=2, leaf_names=gen.REGULAR), gen.potdef(1, [], [], max_ranges=1, leaf_names=gen.REGULAR,
                                                                                                 allow_spline=False, allow_pow=False)))
        t = {"k": "mod", "m": "trans", "args": [inner], "x": x}
        wrap = draw(st.sampled_from(["bare", "sum", "ranged"]))
        if wrap == "sum":
            t = {"k": "mod", "m": "sum", "args": [{"ranges": [{"m": None, "s": None, "body": t}]},
                                                  {"ranges": [{"m": None, "s": None, "body": {"k": "form", "name": "constant", "p": [0.5]}}]}]}
        pd = {"ranges": [{"m": (">=" if wrap == "ranged" else None), "s": (0 if wrap == "ranged" else None), "body": t}]}
    if feature is not None:
        # the definition must use the form that carries the stratum's construct
        f = customs[-1]
        if not any(b["k"] == "custom" and b["name"] == f["name"] for b in model.walk_simple(pd)):
            ps = draw(st.lists(gen.number(0.2, 4), min_size=len(f["params"]) - 1, max_size=len(f["params"]) - 1))
            leaf = {"ranges": [{"m": None, "s": None, "body": {"k": "custom", "name": f["name"], "p": ps}}]}
            pd = {"ranges": [{"m": None, "s": None, "body": {
                "k": "mod", "m": draw(st.sampled_from(["sum", "product"])), "args": [pd, leaf]}}]}
    rs = draw(st.lists(gen.fl(0.05, 30.0), min_size=4, max_size=7))
    # a second entry of the same section that shares most of its text with the first one (the same modifier
    # acting from another separation, a further range, ...): each entry means what ITS text says
    sib = gen.vary(draw, pd, gen.potdef(0, customs, tables, max_ranges=1).map(lambda d: d["ranges"][0]["body"]),
                   how=("param_twin" if twin else None), customs=customs)
    for rg in pd["ranges"] + sib["ranges"]:
        if rg["m"] is not None:
            rs.extend([float(rg["s"]) + 0.125, float(rg["s"])])
    # separations at which an argument of trans() is evaluated at or below 0 (negative shifts): r + X <= 0
    neg = []
    for b in model.walk_simple(pd):
        if b["k"] == "mod" and b["m"] == "trans" and b.get("x", 0) < 0:
            # ... at, and a hair above, the separation where the shifted argument reaches 0 (a row 3*0.1 for X = -0.3)
            neg.extend([-0.5 * b["x"], -1.0 * b["x"], math.nextafter(-1.0 * b["x"], math.inf), -1.0 * b["x"] * (1 + 1e-10), -0.9 * b["x"]])
    # separations at which the dividend of a remainder is negative
    def fmods(e):
        if isinstance(e, dict):
            if e.get("o") == "pymath" and e.get("f") == "fmod" and e["args"][0]["b"].get("o") == "num":
                yield e["args"][0]["b"]["v"]
            for x in e.values():
                for y in fmods(x):
                    yield y
        elif isinstance(e, list):
            for x in e:
                for y in fmods(x):
                    yield y
    for c in list(fmods([f["expr"] for f in customs]))[:2]:
        neg.extend([0.5 * c, 0.3 * c])
    rs = [r for r in neg[:6] + rs if r > 0][:15]
    styles = [draw(_style()), draw(_style())]
    order = draw(st.lists(st.floats(0, 1), min_size=8, max_size=8))
    return {"env": {"custom": customs, "table": tables}, "pd": pd, "sibling": sib, "rs": rs, "styles": styles, "order": order}


def strategy(tier):
    return st.one_of(_case(1), _case(2), _case(2), _case(3))


def strata(tier):
    out = [("plain:depth%d" % d, _case(d), w) for d, w in ((1, 2), (2, 3), (3, 2))]
    out.append(("negative_shift", _case(1, "negative_shift"), 1))
    out.append(("formula:fmod", _case(1, "fmod"), 0.7))
    out.append(("formula:call_with_other_values", _case(1, "rebind"), 1))     # remainders with dividend and divisor of opposite signs
    # two entries that use the same forms and differ in ONE parameter value (-1 / -2 and other close pairs)
    out.append(("sibling:one_parameter", st.one_of(_case(1, "arith", True), _case(1, "func", True), _case(2, "arith", True)), 2.5))
    for feat in gen.FEATURES:
        out.append(("formula:" + feat, st.one_of(_case(1, feat), _case(2, feat)), 2))
    return out


def budget(tier):
    if tier == "quick":
        return {"examples": 130}
    return {"examples": 1500, "shards": 16}


def _expr_has(e, pred):
    if isinstance(e, dict):
        if pred(e):
            return True
        return any(_expr_has(x, pred) for x in e.values())
    if isinstance(e, list):
        return any(_expr_has(x, pred) for x in e)
    return False


def _used_customs(case):
    """names of custom forms reachable from the definition"""
    names = set(b["name"] for b in model.walk_simple(case["pd"]) if b["k"] == "custom")
    forms = dict((c["name"], c) for c in case["env"]["custom"])
    todo = list(names)
    while todo:
        n = todo.pop()
        for c in [forms[n]]:
            for sub in forms:
                if sub not in names and _expr_has(c["expr"], lambda e: e.get("o") == "custom" and e.get("f") == sub):
                    names.add(sub)
                    todo.append(sub)
    return [forms[n] for n in sorted(names)]


def _models(case, style, order):
    pd, env = case["pd"], case["env"]
    zero = {"ranges": [{"m": None, "s": None, "body": {"k": "form", "name": "zero", "p": []}}]}
    a = {"tabulation": {"target": "eam_adp", "nr": 5, "cutoff": 2.0, "nrho": 5, "cutoff_rho": 2.0},
         "env": env, "pair": [("Al", "Al", pd)], "embed": [("Al", pd)], "density": [("Al", pd)],
         "dipole": [("Al", "Al", pd)], "quadrupole": [("Al", "Al", pd)]}
    b = {"tabulation": {"target": "setfl_fs", "nr": 5, "cutoff": 2.0, "nrho": 5, "cutoff_rho": 2.0},
         "env": env, "pair": [("Al", "Al", zero)], "embed": [("Al", zero)], "density_fs": [("Al", "Al", pd)]}
    if order:
        # permute the entries of the [Potential-Form] section as well as the sections
        k = order
        for mdl in (a, b):
            cs = list(mdl["env"]["custom"])
            idx = sorted(range(len(cs)), key=lambda i: k[(i + 3) % len(k)])
            mdl["env"] = dict(mdl["env"], custom=[cs[i] for i in idx])
    return render.model_text(a, style, order), render.model_text(b, style, order)


def _eval_all(txts, rs, only_a=False):
    ta, tb = txts
    fa = libroute.functions(libroute.read_text(ta))
    fns = {"Pair": fa["pair:Al-Al"], "EAM-Embed": fa["embed:Al"], "EAM-Density": fa["density:Al"],
           "EAM-ADP-Dipole": fa["dipole:Al-Al"], "EAM-ADP-Quadrupole": fa["quadrupole:Al-Al"]}
    if not only_a:
        fb = libroute.functions(libroute.read_text(tb))
        fns["EAM-Density(fs)"] = fb["density:Al->Al"]
    return dict((sec, [f(r) for r in rs]) for sec, f in fns.items())


def check_case(case):
    pd, env, rs = case["pd"], case["env"], case["rs"]
    v = []
    cls = ["depth=%d" % model.depth(pd)]
    if any(b["k"] == "mod" and b["m"] == "trans" and b.get("x", 0) < 0 and any(0 < r <= -b["x"] for r in rs) for b in model.walk_simple(pd)):
        cls.append("trans:argument_at_or_below_zero")
    mods = model.modifiers_used(pd)
    cls.extend("mod:" + m for m in mods)
    used = _used_customs(case)
    if any(_expr_has(c["expr"], lambda e: e.get("o") == "custom") for c in used):
        cls.append("custom_calls_custom")
    if any(_expr_has(c["expr"], lambda e: e.get("o") == "if") for c in used):
        cls.append("has_if")
    if any(_expr_has(c["expr"], lambda e: e.get("o") == "pymath") for c in used):
        cls.append("has_pymath")
    if any(_expr_has(c["expr"], lambda e: e.get("o") == "pymath" and e.get("f") == "fmod") for c in used):
        cls.append("has_fmod")
    if any(_expr_has(c["expr"], lambda e: e.get("o") == "as") for c in used):
        cls.append("has_as_call")
    if used:
        cls.append("custom_leaf")
    if any(b["k"] == "table" for b in model.walk_simple(pd)):
        cls.append("table_leaf")
    nt = bool(set(mods) & {"product", "pow", "trans", "spline"}) or model.depth(pd) >= 2 \
        or "custom_calls_custom" in cls
    ref = model.Ref(env)
    # reference values; separations where the reference leaves its domain are skipped
    want = []
    keep = []
    for r in rs:
        try:
            j, _ = model.evaluate(ref, pd, r)
            if abs(j.v) > 1e200:
                raise DomainError("huge")
            want.append(j)
            keep.append(r)
        except (DomainError, OverflowError):
            pass
    if not keep:
        return {"v": [], "cls": cls, "nt": False, "skip": True}
    try:
        txts = _models(case, None, None)
        base = _eval_all(txts, keep)
    except Exception as e:
        return {"v": [("text:exception:%s@%s" % (type(e).__name__, libroute.innermost_atsim_frame(e)),
                       "%r\n%s" % (e, _models(case, None, None)[0]))], "cls": cls, "nt": nt}
    # (1) reference semantics, (4) all sections agree
    for sec, vals in base.items():
        for r, j, got in zip(keep, want, vals):
            tol = 256 * EPS * j.c[0].e + 1e-300
            g = libroute.realnum(got)
            if g is None or not abs(g - j.v) <= tol:
                v.append(("text:value" if sec == "Pair" else "section:%s" % sec,
                          "[%s] r=%r: got %r, reference %r (tol %.3g)\n%s" % (sec, r, got, j.v, tol, txts[0])))
                break
    # (2) formatting variants give identical floats
    for si, style in enumerate(case["styles"]):
        try:
            t2 = _models(case, style, case["order"] if si == 1 else None)
            alt = _eval_all(t2, keep, only_a=True)
            if alt != dict((k, base[k]) for k in alt):
                v.append(("style:differs", "style %r changes values: %r vs %r\n%s" % (style, alt, base, t2[0])))
        except Exception as e:
            v.append(("style:exception:%s@%s" % (type(e).__name__, libroute.innermost_atsim_frame(e)),
                      "style %r: %r\n%s" % (style, e, _models(case, style, None)[0])))
    # (5) two entries of one section that share most of their text
    sib = case.get("sibling")
    if sib is not None and not v:
        cls.append("sibling:" + ("same_text" if sib == pd else "differs"))
        la, lb = gen._leaves(pd), gen._leaves(sib)
        if sib != pd and [x[0] for x in la] == [x[0] for x in lb]:
            diff = [(a, b) for (_, a), (_, b) in zip(la, lb) if a != b]
            if len(diff) == 1 and diff[0][0]["k"] == diff[0][1]["k"] and diff[0][0].get("name") == diff[0][1].get("name"):
                cls.append("sibling:one_parameter_differs:" + diff[0][0]["k"])
                if sorted(set(diff[0][0]["p"]) ^ set(diff[0][1]["p"])) in ([-2, -1], [-2.0, -1.0]):
                    cls.append("sibling:parameters_-1_and_-2:" + diff[0][0]["k"])
        tc = render.model_text({"tabulation": {"target": "LAMMPS", "nr": 5, "cutoff": 2.0}, "env": env,
                                "pair": [("Al", "Al", pd), ("Al", "Cu", sib), ("Cu", "Cu", pd)]})
        try:
            fc = libroute.functions(libroute.read_text(tc))
            for label, d in (("pair:Al-Al", pd), ("pair:Al-Cu", sib), ("pair:Cu-Cu", pd)):
                for r in case["rs"]:
                    try:
                        j, tr = model.evaluate(ref, d, r)
                    except (DomainError, OverflowError):
                        continue
                    if abs(j.v) > 1e200 or any(t[0] == "ambiguous" for t in tr):
                        continue
                    got = libroute.realnum(fc[label](r))
                    tol = 256 * EPS * j.c[0].e + 1e-300
                    if got is None or not abs(got - j.v) <= tol:
                        v.append(("sibling:value", "[%s] r=%r: got %r, its own definition gives %r (tol %.3g)\n%s" % (
                            label, r, got, j.v, tol, tc)))
                        break
                if v:
                    break
        except Exception as e:
            v.append(("sibling:exception:%s@%s" % (type(e).__name__, libroute.innermost_atsim_frame(e)), "%r\n%s" % (e, tc)))
    # (6) Python API composition that keeps and re-uses an intermediate result
    node = next((b for b in model.walk_simple(pd) if b["k"] == "mod" and b["m"] in ("sum", "product")), None)
    if node is not None and not v:
        import atsim.potentials as ap
        cls.append("api:shared_operand:" + node["m"])
        fn = {"sum": ap.plus, "product": ap.product}[node["m"]]
        args = node["args"]

        def wrap(body):
            return {"ranges": [{"m": None, "s": None, "body": body}]}
        pd1 = wrap({"k": "mod", "m": node["m"], "args": args[:2]})
        pd2 = wrap({"k": "mod", "m": node["m"], "args": [pd1, args[-1]]})
        pd3 = wrap({"k": "mod", "m": node["m"], "args": [args[0], pd1]})
        try:
            B = build_api.Builder(env)
            fs = [B.potdef(a) for a in args]
            p1 = fn(fs[0], fs[1])
            before = [p1(r) for r in keep]
            p2 = fn(p1, fs[-1])
            p3 = fn(fs[0], p1)
            for f, d, what in ((p1, pd1, "x = %s(a, b) evaluated after building %s(x, c) and %s(a, x)" % ((fn.__name__,) * 3)),
                               (p2, pd2, "%s(%s(a, b), c)" % ((fn.__name__,) * 2)),
                               (p3, pd3, "%s(a, %s(a, b))" % ((fn.__name__,) * 2))):
                for r in keep:
                    try:
                        j, _ = model.evaluate(ref, d, r)
                    except (DomainError, OverflowError):
                        continue
                    if abs(j.v) > 1e200:
                        continue
                    got = libroute.realnum(f(r))
                    tol = 256 * EPS * j.c[0].e + 1e-300
                    if got is None or not abs(got - j.v) <= tol:
                        v.append(("api:shared_operand", "%s at r=%r: got %r, reference %r (tol %.3g); a, b, c = arguments "
                                  "of the first %s() of\n%s" % (what, r, got, j.v, tol, node["m"], txts[0])))
                        break
                if v:
                    break
            if not v and [p1(r) for r in keep] != before:
                v.append(("api:shared_operand", "x = %s(a, b) changed its values after being used as an operand\n%s" % (fn.__name__, txts[0])))
        except Exception as e:
            v.append(("api:shared:exception:%s@%s" % (type(e).__name__, libroute.innermost_atsim_frame(e)), "%r\n%s" % (e, txts[0])))
    # (3) Python API composition
    try:
        api = build_api.Builder(env).potdef(pd)
        for r, j, got in zip(keep, want, base["Pair"]):
            a = api(r)
            tol = 256 * EPS * j.c[0].e + 1e-300
            if libroute.realnum(a) is None or not abs(a - j.v) <= tol or not abs(a - got) <= tol:
                v.append(("api:differs", "r=%r: API %r, potable %r, reference %r\n%s" % (r, a, got, j.v, txts[0])))
                break
    except Exception as e:
        v.append(("api:exception:%s@%s" % (type(e).__name__, libroute.innermost_atsim_frame(e)),
                  "%r\n%s" % (e, txts[0])))
    return {"v": v, "cls": cls, "nt": nt}
