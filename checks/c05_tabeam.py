"""C05 -- DL_POLY TABEAM: declared function count, block headers and values are faithful.

Generated: EAM and Finnis-Sinclair models (1..4 elements, under-specified
elements, any subset/orientation of pair potentials), grids with n % 4 in
{0,1,2,3}.
Routes: writeTABEAM / writeTABEAMFinnisSinclair | TABEAM_EAMTabulation /
TABEAM_FinnisSinclair_EAMTabulation | potable targets DL_POLY_EAM / DL_POLY_EAM_fs.
Oracle: token reader; declared count == number of blocks; exactly one 'pair' per
unordered element pair (either species order in its header, zero-filled when
undeclared), one 'embe' per element, one 'dens' per element (EAM) or per ordered
pair (EEAM); every header 'n 0.0 (n-1)*step' followed by exactly n values equal
to the function at i*step (%f precision); nothing else in the file.
"""
import io

from hypothesis import strategies as st

from vlib import bootstrap, gen, model, libroute, eamtab, parsers, compare, rewrite
from vlib.num import DomainError, EN

bootstrap.activate()
import atsim.potentials as ap  # noqa: E402
from atsim.potentials.eam_tabulation import TABEAM_EAMTabulation, TABEAM_FinnisSinclair_EAMTabulation  # noqa: E402

ID = "C05"
LEVEL = "exploration"
RULE = ("Hypothesis builds an EAM or Finnis-Sinclair model (as C03/C04) with grid sizes covering every residue "
        "of n mod 4, and a route; the TABEAM text is read by an independent token reader; block multiset, headers "
        "and every value (all rows <= 40, else 40 spread rows) are compared with the reference. Non-trivial = >= 2 "
        "elements with an undeclared or reversed pair, or n % 4 != 0; distinct = canonical JSON.")
ASSUMPTIONS = [
    "rows are taken at the float the property's own row formula gives (k*delpot; i*step; i*cutoff/(nr-1)); a row that sits EXACTLY on a range boundary is compared (the marker decides its side), a row within 64 ulp of a boundary without being on it is not (nothing can be said about which side a last-bit difference puts it on)",
    "block order inside the file is not constrained; numbers are printed with 17 significant digits (since F51; tolerance: one unit of the last printed place + modelled rounding)",
    "the 'dens A B' block of an EEAM file is the density at an A site due to a B neighbour (as the repository's "
    "skipped DL_POLY tests expect); C04 checks that routing against the consumer's rule in detail",
]
REQUIRED = {"kind:eam": 40, "kind:fs": 40, "n%4!=0": 40, "zero_filled_pair": 20, "reversed_pair": 20,
            "route:function": 15, "route:class": 15, "route:potable": 15, "rewrite:2_writes": 2, "break_on_row": 5}
FMT = ("e", 16)


@st.composite
def _case(draw, kind, n_min=1, n_max=4, near_copies=False):
    route = draw(st.sampled_from(["function", "class", "potable", "main"]))
    m = draw(gen.eam_model(kind, n_min, n_max, depth=1, pycallables=(route not in ("potable", "main")), near_copies=near_copies))
    m["route"] = route
    if near_copies:
        m["near_copies"] = True
    m["api_container"] = draw(st.sampled_from(["list", "list", "tuple", "iterator", "generator"]))
    m["extra_density_keys"] = draw(st.integers(0, 2)) == 0
    return m


@st.composite
def _node_case(draw):
    m = draw(_case(draw(st.sampled_from(["eam", "fs"])), 1, 3))
    if m["grid"]["nr"] < 3 or m["grid"]["nrho"] < 3:
        m["grid"]["nr"] += 3
        m["grid"]["nrho"] += 3
    return eamtab.with_node_breaks(draw, m)


@st.composite
def _rewrite(draw):
    m = draw(_case(draw(st.sampled_from(["eam", "fs"])), 1, 3))
    m["route"] = draw(st.sampled_from(["function", "class"]))
    m["rewrite"] = draw(rewrite.plan(m))
    return m


def strategy(tier):
    return _case("eam")


def strata(tier):
    return [("eam:1-2", _case("eam", 1, 2), 2), ("eam:3-4", _case("eam", 3, 4), 3),
            ("fs:1-2", _case("fs", 1, 2), 2), ("fs:3-4", _case("fs", 3, 4), 3), ("rewrite", _rewrite(), 2), ("break_on_row", _node_case(), 1),
            ("near_copies", st.one_of(_case("eam", 2, 3, True), _case("fs", 2, 3, True)), 3)]


def budget(tier):
    if tier == "quick":
        return {"examples": 170}
    return {"examples": 700, "shards": 16}


def _domain(m, ref):
    nr, dr, nrho, drho = eamtab.grids(m)
    for a, pd in m["embed"]:
        for i in compare.sample_rows(nrho):
            eamtab.ref_value(ref, pd, i * drho)
    dens = [pd for _, pd in m["density"]] if "density" in m else [pd for _, _, pd in m["density_fs"]]
    for pd in dens + [pd for _, _, pd in m["pair"]]:
        for i in compare.sample_rows(nr):
            eamtab.ref_value(ref, pd, i * dr)


def verify(m, text, ctx):
    v = []
    try:
        t = parsers.tabeam(text)
    except parsers.FormatError as e:
        return [("format", "%s\n%s" % (e, ctx))]
    els = sorted(eamtab.element_set(m))
    fs = "density_fs" in m
    nr, dr, nrho, drho = eamtab.grids(m)
    if t["declared"] != len(t["blocks"]):
        v.append(("declared_count", "file declares %d functions and contains %d blocks\n%s" % (t["declared"], len(t["blocks"]), ctx)))
    want = {}
    for i, a in enumerate(els):
        want[("embe", (a,))] = 0
        for b in els[i:]:
            want[("pair", frozenset((a, b)))] = 0
        if fs:
            for b in els:
                want[("dens", (a, b))] = 0
        else:
            want[("dens", (a,))] = 0
    ref = model.Ref(m["env"])
    lk = eamtab.lookup(m)
    for blk in t["blocks"]:
        kind, sp = blk["kind"], tuple(blk["species"])
        key = (kind, frozenset(sp)) if kind == "pair" else (kind, sp)
        if kind == "pair" and len(sp) != 2:
            v.append(("block_header", "pair block names %r" % (sp,)))
            continue
        if key not in want:
            v.append(("unexpected_block", "block %s %r is not a function of the model over elements %r\n%s" % (kind, sp, els, ctx)))
            continue
        want[key] += 1
        n, step = (nrho, drho) if kind == "embe" else (nr, dr)
        if blk["n"] != n:
            v.append(("block_header:n", "%s %r has n=%d, grid has %d\n%s" % (kind, sp, blk["n"], n, ctx)))
            continue
        if blk["start"] != 0.0 or not compare.close(FMT, blk["end"], EN((n - 1) * step, (n - 1) * step)):
            v.append(("block_header:range", "%s %r spans %s..%s, expected 0.0..(n-1)*step=%r\n%s" % (
                kind, sp, blk["start_tok"], blk["end_tok"], (n - 1) * step, ctx)))
        if kind == "embe":
            pd = lk["embed"].get(sp[0])
        elif kind == "pair":
            pd = lk["pair"].get(frozenset(sp))
        elif fs:
            pd = lk["density_fs"].get((sp[0], sp[1]))
        else:
            pd = lk["density"].get(sp[0])
        for i in compare.sample_rows(n):
            x = i * step
            if eamtab.near_boundary(ref, pd, x):
                continue
            w = eamtab.ref_value(ref, pd, x)
            if not compare.close(FMT, blk["values"][i], w):
                v.append(("value:" + kind, "%s %r value %d (x=%r): %r, model %r (declared=%s)\n%s" % (
                    kind, sp, i, x, blk["values"][i], w.v, pd is not None, ctx)))
                break
    for key, cnt in want.items():
        if cnt != 1:
            v.append(("block_multiplicity", "%s %r occurs %d times (expected exactly once)\n%s" % (
                key[0], sorted(key[1]) if isinstance(key[1], frozenset) else key[1], cnt, ctx)))
            break
    return v


def _check_rewrite(m, cls):
    fs = "density_fs" in m
    rw, route = m["rewrite"], m["route"]
    one = rw["same_object"] and route == "class"
    cls = cls + ["rewrite:%d_writes" % len(rw["ks"]), "rewrite:" + ("one_object" if one else "same_callables"), "rewrite:" + rw["kind"]]
    w = rewrite.Wrapper(m, rw)
    pairs, eams = eamtab.api_objects(m, wrap=w)
    g = m["grid"]
    nr, dr, nrho, drho = eamtab.grids(m)
    tab = None
    v = []
    for n, k in enumerate(rw["ks"]):
        w.set(k)
        mm = rewrite.scaled_model(m, rw, k)
        ctx = "%s\n%s" % (rewrite.describe(m, rw, n, k), eamtab.potable_text(mm, "DL_POLY_EAM_fs" if fs else "DL_POLY_EAM"))
        try:
            _domain(mm, model.Ref(mm["env"]))
        except (DomainError, OverflowError, ZeroDivisionError):
            return {"v": [], "cls": cls, "nt": False, "skip": True}
        fp = io.StringIO()
        try:
            if route == "function":
                (ap.writeTABEAMFinnisSinclair if fs else ap.writeTABEAM)(nrho, drho, nr, dr, eams, pairs, out=fp)
            else:
                if tab is None or not one:
                    cl = TABEAM_FinnisSinclair_EAMTabulation if fs else TABEAM_EAMTabulation
                    tab = cl(pairs, eams, g["cutoff"], g["nr"], g["cutoff_rho"], g["nrho"])
                tab.write(fp)
        except Exception as e:
            return {"v": [("rewrite:exception:%s@%s" % (type(e).__name__, libroute.innermost_atsim_frame(e)), "%r\n%s" % (e, ctx))],
                    "cls": cls, "nt": False}
        try:
            vv = verify(mm, fp.getvalue(), ctx)
        except DomainError:
            return {"v": [], "cls": cls, "nt": False, "skip": True}
        v += [(("rewrite:" + bk) if n else bk, d) for bk, d in vv]
        if v:
            break
    return {"v": v, "cls": cls, "nt": True}


def check_case(m):
    fs = "density_fs" in m
    route = m["route"]
    nr, dr, nrho, drho = eamtab.grids(m)
    cls = ["kind:" + ("fs" if fs else "eam"), "route:" + route] + (["break_on_row"] if m.get("node_breaks") else []) + (["near_copies"] if m.get("near_copies") else [])
    if m.get("int_returns") and not str(route).startswith(("potable", "main", "cli")):
        cls.append("callables_return_ints")
    if nr % 4 or nrho % 4:
        cls.append("n%4!=0")
    els = eamtab.element_set(m)
    declared = set(frozenset((a, b)) for a, b, _ in m["pair"] if a in els and b in els)
    if len(declared) < len(els) * (len(els) + 1) // 2:
        cls.append("zero_filled_pair")
    order = m["elements"]
    if any(a in els and b in els and order.index(a) > order.index(b) for a, b, _ in m["pair"]):
        cls.append("reversed_pair")
    nt = (len(els) >= 2 and bool(set(cls) & {"zero_filled_pair", "reversed_pair"})) or "n%4!=0" in cls
    if m.get("rewrite"):
        return _check_rewrite(m, cls)
    target = "DL_POLY_EAM_fs" if fs else "DL_POLY_EAM"
    ctx = eamtab.potable_text(m, target)
    ref = model.Ref(m["env"])
    try:
        _domain(m, ref)
    except (DomainError, OverflowError, ZeroDivisionError):
        return {"v": [], "cls": cls, "nt": False, "skip": True}
    try:
        if route in ("cli", "main"):
            res = (libroute.run_potable_main if route == "main" else libroute.run_potable)([], ctx)
            if res["rc"] != 0 or res["out"] is None:
                return {"v": [("cli:failed", "rc=%r %s\n%s" % (res["rc"], res["stderr"][-500:], ctx))], "cls": cls, "nt": False}
            out = res["out"].decode()
        elif route == "potable":
            out = libroute.write_text(libroute.read_text(ctx))
        else:
            pairs, eams = eamtab.api_objects(m, container=m.get("api_container"), extra_keys=bool(m.get("extra_density_keys")))
            cls.append("pair_potentials_as:" + (m.get("api_container") or "list"))
            if fs and m.get("extra_density_keys"):
                cls.append("density_dictionary_with_foreign_key")
            fp = io.StringIO()
            g = m["grid"]
            if route == "function":
                (ap.writeTABEAMFinnisSinclair if fs else ap.writeTABEAM)(nrho, drho, nr, dr, eams, pairs, out=fp)
            else:
                cl = TABEAM_FinnisSinclair_EAMTabulation if fs else TABEAM_EAMTabulation
                cl(pairs, eams, g["cutoff"], g["nr"], g["cutoff_rho"], g["nrho"]).write(fp)
            out = fp.getvalue()
    except Exception as e:
        return {"v": [("write:exception:%s@%s" % (type(e).__name__, libroute.innermost_atsim_frame(e)), "%r\n%s" % (e, ctx))],
                "cls": cls, "nt": False}
    try:
        v = verify(m, out, ctx)
    except DomainError:
        return {"v": [], "cls": cls, "nt": False, "skip": True}
    return {"v": v, "cls": cls, "nt": nt}


def extra(tier, seed, record):
    import hypothesis
    from hypothesis import given, settings, HealthCheck, Phase
    n = 4 if tier == "quick" else 50
    done = {"n": 0}

    @hypothesis.seed(seed * 7919 + 23)
    @settings(max_examples=n, database=None, deadline=None, suppress_health_check=list(HealthCheck), phases=[Phase.generate])
    @given(st.one_of(_case("eam", 2, 4), _case("fs", 2, 3)))
    def run(m):
        m = dict(m, route="cli")
        res = check_case(m)
        res["cls"] = list(res.get("cls", [])) + ["route:cli"]
        if not res.get("skip"):
            done["n"] += 1
        record(m, res)
    run()
    return {"cli_runs": done["n"]}
