"""C02 -- DL_POLY TABLE: header, 4-per-record layout, energies and -r dU/dr faithful.

Generated: pair models as C01; row counts from multiples of four >= 8 (accepted)
and from other values >= 3 (rejected).
Routes: DLPoly_PairTabulation.write | writePotentials('DL_POLY') | potable
targets DL_POLY and DLPOLY | real CLI (sampled).
Oracle: layout-strict parser (line 2 = %15.8e%15.8e%10d with delpot=cutoff/(ngrid-4),
cutpot=cutoff, ngrid=nr; per potential two 8-character right-justified labels,
then exactly ngrid energies and ngrid force values in 60-character records of
four fields); E_k = V(k*delpot), G_k = -r dV/dr at r = k*delpot from reference
jets.  Non-multiples of four: the API raises WritePotentialException and nothing
is written; potable raises a configuration error; the CLI exits 2 with
'configuration error'.
"""
import io
import math

from hypothesis import strategies as st

from vlib import bootstrap, gen, model, libroute, pairtab, parsers, compare
from vlib.num import DomainError, EN

bootstrap.activate()
import atsim.potentials as ap  # noqa: E402
from atsim.potentials.pair_tabulation import DLPoly_PairTabulation  # noqa: E402
from atsim.potentials._dlpoly_writeTABLE import WritePotentialException  # noqa: E402
from atsim.potentials.config._common import ConfigurationException  # noqa: E402

ID = "C02"
LEVEL = "exploration"
RULE = ("Hypothesis builds a pair model as for C01 (species labels <= 8 characters), a cutoff and a row count "
        "drawn either from multiples of four in [8, 80] (thorough: to 2000) or from non-multiples >= 3, and a "
        "route. Accepted tables are read back with a layout-strict parser and all energies / force values (or 40 "
        "spread rows) compared with reference jets; rejected row counts must raise the documented error and leave "
        "the output untouched. Non-trivial = an accepted table with >= 2 potentials or curvature, or a rejected "
        "row count; distinct = distinct canonical JSON.")
ASSUMPTIONS = [
    "rows are taken at the float the property's own row formula gives (k*delpot; i*step; i*cutoff/(nr-1)); a row that sits EXACTLY on a range boundary is compared (the marker decides its side), a row within 64 ulp of a boundary without being on it is not (nothing can be said about which side a last-bit difference puts it on)",
    "a 15-character field cannot hold seven decimals of |value| < 1e-99 or >= 1e100: the former may be printed as "
    "zero, the latter with six decimals (F04, F32)",
    "nr = 4 (delpot = cutoff/0) is refused like a row count that is not a multiple of four (F38)",
    "numerical-fallback force rows whose stencil crosses a "
    "boundary are not compared (counted)",
]
REQUIRED = {"grid_given_as:nr_dr": 4, "grid_given_as:cutoff_dr": 4, "special:large_file": 2, "label:longer_than_field:reject": 4, "label:eight_characters": 3, "special:int_plateau": 4, "special:root_on_grid": 8, "special:decay_tail": 8, "special:growth": 4, "special:break_on_row": 8, "special:other_units": 10, "reject:four_rows": 2, "no_potentials:reject": 3, "accept": 60, "reject": 40, "reject:nr%4=2:api_class": 5, "reject:nr%4=2:writePotentials": 5,
            "reject:nr%4=2:potable": 10, "route:potable:DL_POLY": 10, "route:potable:DLPOLY": 10,
            "route:api_class": 15, "route:writePotentials": 15}
FMT = ("e", 7)


@st.composite
def _case(draw, nr_max, accept, route=None, rem=None, grid_spec=None):
    route = route or draw(st.sampled_from(["api_class", "writePotentials", "potable:DL_POLY", "potable:DLPOLY", "main"]))
    m = draw(gen.pair_model(4, 2, pycallables=not route.startswith(("potable", "main"))))
    cutoff, _ = draw(gen.grid_rc(10))
    if accept:
        nr = 4 * draw(st.one_of(st.integers(2, 6), st.integers(2, nr_max // 4)))
    else:
        four = rem == "four"
        rem = draw(st.sampled_from([1, 2, 2, 3])) if four or not rem else rem
        nr = max(3, 4 * draw(st.one_of(st.integers(0, 6), st.integers(0, nr_max // 4))) + rem)
        if nr % 4 == 0:
            nr += rem
        if four:
            nr = 4          # divisible by four, but delpot = cutoff/(ngrid-4) does not exist
        elif draw(st.integers(0, 3)) == 0:
            # the row count belongs to the file: it is refused also when there is no potential to tabulate
            m["pair"] = []
    m.update({"cutoff": cutoff, "nr": nr, "route": route,
              "container": draw(st.sampled_from(["list", "list", "tuple", "iterator", "generator"]))})
    if route.startswith(("potable", "main")) and (grid_spec or draw(st.integers(0, 2)) == 0):
        # the same grid given through the step: nr + dr, or cutoff + dr (cutoff = (nr-1)*dr); cutpot is that cutoff
        # and delpot = cutoff/(nr-4) as for any other way of giving the grid
        step = draw(st.sampled_from([0.01, 0.005, 0.02, 0.05, 0.125]))
        m["cutoff"] = (nr - 1) * step
        m["grid_spec"] = grid_spec or draw(st.sampled_from(["cutoff_dr", "nr_dr"]))
        m["dr_given"] = repr(step)
    return m


@st.composite
def _large_case(draw):
    """files of a few hundred kB (several blocks of thousands of rows): what is buffered, flushed or streamed on
    the way to the file shows only from some size on"""
    route = draw(st.sampled_from(["api_class", "writePotentials", "potable:DL_POLY", "main"]))
    m = draw(gen.pair_model(4, 0, max_tables=0, pycallables=False, min_pots=2, max_customs=0))
    m.update({"cutoff": draw(st.sampled_from([6.5, 10.0, 12.0])), "nr": draw(st.sampled_from([2200, 2400, 3000, 4004])), "route": route,
              "container": draw(st.sampled_from(["list", "tuple"])), "special": "large_file"})
    return m


@st.composite
def _label_case(draw, nr_max, long_label):
    """species labels that fill the 8-character field exactly, or do not fit it: the first are written, the second
    cannot be (the header is two fixed fields) and the table is refused"""
    m = draw(_case(nr_max, True))
    if not m["pair"]:
        return m
    old = draw(st.sampled_from(sorted(set(x for a, b, _ in m["pair"] for x in (a, b)))))
    new = draw(st.sampled_from(["Oxygen_core", "Uranium4+", "ABCDEFGHI", "shell_of_O"] if long_label else ["Oxygen_c", "U4+_core", "ABCDEFGH"]))
    m["pair"] = [[new if a == old else a, new if b == old else b, pd] for a, b, pd in m["pair"]]
    m["species"] = sorted(set(x for a, b, _ in m["pair"] for x in (a, b)))
    m["label_case"] = "long" if long_label else "eight"
    return m


@st.composite
def _special(draw, kind):
    m = draw(gen.special_pair_model(kind, dlpoly=True))
    m["route"] = draw(st.sampled_from(["api_class", "writePotentials", "potable:DL_POLY", "potable:DLPOLY"]))
    if kind == "int_plateau":
        m["int_returns"] = draw(st.booleans())
    return m


@st.composite
def _units(draw, name):
    """a built-in form in other units (energies x 10^e, lengths x 10^l) on the correspondingly scaled grid: the rows
    sit at k*delpot whatever the magnitude of delpot"""
    e, l = draw(st.sampled_from([(-19, -10), (0, -10), (0, -4), (3, 1), (-25, -8), (12, 2), (0, -6), (-6, 4)]))
    p = gen.rescale(name, draw(gen.form_params(name)), e, l)
    a, b = draw(st.sampled_from([("A", "B"), ("O", "U"), ("Xx", "Xx")]))
    route = draw(st.sampled_from(["api_class", "writePotentials", "potable:DL_POLY", "potable:DLPOLY"]))
    cutoff = draw(st.sampled_from([6.5, 10.0, 7.3, 2.5])) * 10.0 ** l
    nr = 4 * draw(st.sampled_from([3, 10, 25, 100, 250]))
    return {"env": {"custom": [], "table": []}, "species": sorted(set([a, b])), "cutoff": cutoff, "nr": nr, "route": route,
            "pair": [[a, b, {"ranges": [{"m": None, "s": None, "body": {"k": "form", "name": name, "p": p}}]}]],
            "container": "list", "special": "other_units"}


@st.composite
def _node_case(draw):
    """break points exactly on grid rows k*delpot"""
    cutoff = draw(st.sampled_from([10.0, 6.5, 7.3, 12.0, 2.5]))
    nr = 4 * draw(st.sampled_from([3, 6, 11, 26, 251]))
    delpot = cutoff / (nr - 4.0)
    ks = draw(st.lists(st.integers(1, nr), min_size=1, max_size=3, unique=True))
    a, b = draw(st.sampled_from([("A", "B"), ("O", "U"), ("Xx", "Xx")]))
    return {"env": {"custom": [], "table": []}, "species": sorted(set([a, b])), "cutoff": cutoff, "nr": nr,
            "route": draw(st.sampled_from(["api_class", "writePotentials", "potable:DL_POLY", "potable:DLPOLY"])),
            "pair": [[a, b, draw(gen.node_break_potdef([k * delpot for k in ks]))]], "container": "list", "special": "break_on_row",
            "node_rows": ks}


def strategy(tier):
    return _case(80, True)


def strata(tier):
    mx = 80 if tier == "quick" else 2000
    out = [("accept", _case(mx, True), 12), ("root_on_grid", _special("root_on_grid"), 2),
           ("decay_tail", _special("decay_tail"), 2), ("growth", _special("growth"), 1), ("int_plateau", _special("int_plateau"), 1)]
    out.append(("break_on_row", _node_case(), 2))
    out.append(("large_file", _large_case(), 0.5))
    out += [("grid_given_as:%s:%s" % (g, r), _case(mx, True, r, grid_spec=g), 0.4) for g in ("nr_dr", "cutoff_dr") for r in ("potable:DL_POLY", "main")]
    out += [("label:eight_characters", _label_case(mx, False), 0.7), ("reject:label_longer_than_field", _label_case(mx, True), 1)]
    out += [("other_units:" + f, _units(f), 0.25) for f in gen.UNIT_FORMS if f not in ("zero", "constant")]
    for route in ("api_class", "writePotentials", "potable:DL_POLY", "potable:DLPOLY", "main"):
        out.append(("reject:even:" + route, _case(mx, False, route, 2), 1))
        out.append(("reject:odd:" + route, _case(mx, False, route), 1))
        out.append(("reject:four:" + route, _case(mx, False, route, "four"), 0.3))
    return out


def validate(case):
    """cases the shrinker may propose: the grid stays inside the statement (cutoff > 0) and a grid given through its
    step still means the row count the case states"""
    try:
        if not (case["cutoff"] > 0 and case["nr"] >= 1):
            return False
        if case.get("grid_spec"):
            return case["cutoff"] == (case["nr"] - 1) * float(case["dr_given"])
    except Exception:
        return False
    return True


def budget(tier):
    if tier == "quick":
        return {"examples": 220}
    return {"examples": 800, "shards": 16}


def _functions_fail_on_grid(text, nr, delpot):
    """True when one of the model's own potential functions raises an arithmetic error at a separation the table
    holds (rows delpot .. nr*delpot) - e.g. the closed-form slope of as.tang_toennies beyond b*r = 375, where its
    exp() overflows: such a model cannot be tabulated in any format (a failing function is C17's subject) and is
    outside this check.  Evaluated through Configuration, not through the DL_POLY writer."""
    try:
        from atsim.potentials.config import Configuration
        tab = Configuration().read(io.StringIO(text))
        for pot in tab.potentials:
            for i in range(1, nr + 1):
                pot.energy(i * delpot)
                pot.force(i * delpot)
    except (OverflowError, ZeroDivisionError, ValueError):
        return True
    except Exception:
        return False
    return False


def _text(case, target):
    spec = case.get("grid_spec")
    if spec == "nr_dr":
        return pairtab.potable_text(case, target, {"nr": case["nr"], "dr": case["dr_given"]})
    if spec == "cutoff_dr":
        return pairtab.potable_text(case, target, {"cutoff": case["cutoff"], "dr": case["dr_given"]})
    return pairtab.potable_text(case, target, {"cutoff": case["cutoff"], "nr": case["nr"]})


def verify_text(case, out, route_kind, ctx):
    v = []
    stats = {"nontrivial": False, "boundary_rows_skipped": 0, "force_rows_skipped": 0}
    cutoff, nr = case["cutoff"], case["nr"]
    try:
        t = parsers.dlpoly_table(out)
    except parsers.FormatError as e:
        return [("format", "%s\n%s" % (e, ctx))], stats
    delpot = cutoff / (nr - 4.0)
    if t["ngrid"] != nr:
        v.append(("header:ngrid", "ngrid %d, row count %d\n%s" % (t["ngrid"], nr, ctx)))
    if not compare.close(("e", 8), t["delpot"], EN(delpot, delpot)) or not compare.close(("e", 8), t["cutpot"], EN(cutoff, cutoff)):
        v.append(("header:delpot_cutpot", "delpot %r cutpot %r, expected %r %r\n%s" % (t["delpot"], t["cutpot"], delpot, cutoff, ctx)))
    if len(t["blocks"]) != len(case["pair"]):
        v.append(("block_count", "%d blocks for %d potentials\n%s" % (len(t["blocks"]), len(case["pair"]), ctx)))
        return v, stats
    if v:
        return v, stats
    ref = model.Ref(case["env"])
    for (a, b, pd), blk in zip(case["pair"], t["blocks"]):
        pd = pairtab.for_route(pd, route_kind)
        if (blk["a"], blk["b"]) not in ((a, b), (b, a)):
            v.append(("labels", "block headed %r %r for potential %s-%s\n%s" % (blk["a"], blk["b"], a, b, ctx)))
            continue
        numeric = pairtab.has_numeric(pd, route_kind)
        curved = False
        for i in sorted(set(compare.sample_rows(nr)) | set(k_ - 1 for k_ in case.get("node_rows", []))):
            k = i + 1
            r = k * delpot
            if not model.on_boundary(ref, pd, r) and not model.same_piece(ref, pd, r, 64 * 2.3e-16 * max(1.0, r)):
                stats["boundary_rows_skipped"] += 1
                continue
            j, tr = pairtab.ref_row(ref, pd, r, order=2, rerr=8.0 + k)   # r accumulated by k additions
            if any(x[0] == "ambiguous" for x in tr):
                continue
            E = blk["energies"][i]
            if abs(j.v) >= 1e99 or abs(j.d(1).v * r) >= 1e99:
                raise DomainError("value does not fit a 15-character field")
            fmt_e = FMT if abs(E) < 1e100 else ("e", 6)     # three-digit exponents are printed with one decimal less
            if not compare.close(fmt_e, E, j.c[0]) and not (E == 0.0 and abs(j.v) < 1.0000001e-99):
                v.append(("energy", "%s-%s energy %d (r=%r): %r, model %r (tol %.3g)\n%s" % (
                    a, b, k, r, E, j.v, compare.tol(FMT, E, j.c[0]), ctx)))
                break
            d1 = j.d(1)
            if math.isinf(d1.u) or (numeric and not model.same_piece(ref, pd, r, 1e-6)):
                stats["force_rows_skipped"] += 1
                continue
            want = -(d1 * EN(r, (8.0 + k) * r))
            G = blk["forces"][i]
            fmt_g = FMT if abs(G) < 1e100 else ("e", 6)
            if not compare.close(fmt_g, G, want) and not (G == 0.0 and abs(want.v) < 1.0000001e-99):
                v.append(("force", "%s-%s force value %d (r=%r): %r, -r dV/dr = %r (tol %.3g, numeric=%s)\n%s" % (
                    a, b, k, r, G, want.v, compare.tol(FMT, G, want), numeric, ctx)))
                break
            if abs(j.d(2).v) > 1e-9:
                curved = True
        if curved or len(case["pair"]) >= 2:
            stats["nontrivial"] = True
    return v, stats


def check_case(case):
    nr, cutoff, route = case["nr"], case["cutoff"], case["route"]
    accept = nr % 4 == 0 and nr >= 8        # with four rows delpot = cutoff/(ngrid-4) does not exist
    longest = max([0] + [len(x) for a, b, _ in case["pair"] for x in (a, b)])
    if longest > 8:
        accept = False                      # a label that does not fit its 8-character field cannot be written
    cls = ["accept" if accept else "reject", "route:" + route]
    if case.get("label_case") and case["pair"]:
        cls.append("label:" + ("longer_than_field:reject" if longest > 8 else "eight_characters"))
    if not case["pair"]:
        cls.append("no_potentials:" + ("accept" if accept else "reject"))
    if nr == 4:
        cls.append("reject:four_rows")
    if case.get("special"):
        cls.append("special:" + case["special"])
    if case.get("grid_spec"):
        cls.append("grid_given_as:" + case["grid_spec"])
    if case.get("int_returns") and not case["route"].startswith(("potable", "main", "cli")):
        cls.append("callables_return_ints")
    if not accept:
        cls.append("reject:nr%%4=%d:%s" % (nr % 4, "potable" if route.startswith("potable") else route))
    rk = "potable" if route.startswith("potable") or route in ("cli", "main") else "api"
    target = route.split(":")[1] if ":" in route else "DL_POLY"
    ctx = _text(case, target)
    if accept:
        ref = model.Ref(case["env"])
        delpot = cutoff / (nr - 4.0)
        try:
            for a, b, pd in case["pair"]:
                for i in compare.sample_rows(nr):
                    pairtab.ref_row(ref, pairtab.for_route(pd, rk), (i + 1) * delpot, order=0)
        except (DomainError, OverflowError, ZeroDivisionError):
            return {"v": [], "cls": cls, "nt": False, "skip": True}
    v = []
    out = None
    try:
        if route in ("cli", "main"):
            # 'main': potable's own main() in this process, writing to a path that does not exist beforehand
            res = libroute.run_potable([], ctx) if route == "cli" else libroute.run_potable_main([], ctx, preexisting=False)
            if accept:
                if res["rc"] == 1 and not res["out"] and _functions_fail_on_grid(ctx, nr, cutoff / (nr - 4.0)):
                    return {"v": [], "cls": cls + ["skipped:function_fails_on_grid"], "nt": False, "skip": True}
                if res["rc"] != 0 or res["out"] is None:
                    return {"v": [("cli:failed", "rc=%r %s\n%s" % (res["rc"], res["stderr"][-500:], ctx))], "cls": cls, "nt": False}
                out = res["out"].decode()
            else:
                if res["rc"] != 2 or "configuration error" not in res["stderr"]:
                    v.append(("cli:reject", "nr=%d: exit status %r, stderr %r\n%s" % (nr, res["rc"], res["stderr"][-400:], ctx)))
                if res["out"] is not None:
                    # "rejected instead of producing a file": the output path did not exist before the run
                    v.append(("cli:reject_wrote_file", "nr=%d: a file of %d bytes exists at the output path after the refusal\n%s" % (nr, len(res["out"]), ctx)))
                return {"v": v, "cls": cls, "nt": True}
        elif rk == "potable":
            try:
                tab = libroute.read_text(ctx)
                out = libroute.write_text(tab)
                if not accept:
                    v.append(("potable:accepted_bad_nr", "nr=%d produced %d characters\n%s" % (nr, len(out), ctx)))
            except ConfigurationException as e:
                if accept:
                    v.append(("potable:rejected_good_nr", "nr=%d: %r\n%s" % (nr, e, ctx)))
                return {"v": v, "cls": cls, "nt": True}
        else:
            cont = case.get("container", "list")
            pots = pairtab.api_potentials(case, cont)
            cls.append("container:" + cont)
            fp = io.StringIO()
            try:
                if route == "api_class":
                    tabobj = DLPoly_PairTabulation(pots, cutoff, nr)
                    tabobj.write(fp)
                    if cont in ("list", "tuple"):
                        # a tabulation object can be written again: same bytes
                        fp_again = io.StringIO()
                        tabobj.write(fp_again)
                        if fp_again.getvalue() != fp.getvalue():
                            v.append(("api:second_write_differs", "write() twice on one object: %d then %d characters" % (
                                len(fp.getvalue()), len(fp_again.getvalue()))))
                else:
                    ap.writePotentials("DL_POLY", pots, cutoff, nr, fp)
                out = fp.getvalue()
                if not accept:
                    v.append(("api:accepted_bad_nr", "nr=%d produced %d characters" % (nr, len(out))))
            except WritePotentialException as e:
                if accept:
                    v.append(("api:rejected_good_nr", "nr=%d: %r" % (nr, e)))
                elif fp.getvalue() != "":
                    v.append(("api:reject_wrote_data", "nr=%d rejected but %d characters were written" % (nr, len(fp.getvalue()))))
                if not accept and route == "api_class" and cont in ("list", "tuple"):
                    # the refusal is a property of the row count, not of the first attempt
                    fp2 = io.StringIO()
                    try:
                        tabobj.write(fp2)
                        v.append(("api:second_write_accepts_bad_nr", "nr=%d: the first write() was refused, the second returned "
                                  "normally with %d characters" % (nr, len(fp2.getvalue()))))
                    except WritePotentialException:
                        pass
                return {"v": v, "cls": cls, "nt": True}
    except Exception as e:
        return {"v": [("write:exception:%s@%s" % (type(e).__name__, libroute.innermost_atsim_frame(e)), "%r\n%s" % (e, ctx))],
                "cls": cls, "nt": False}
    if not accept or out is None:
        return {"v": v, "cls": cls, "nt": True}
    try:
        v2, stats = verify_text(case, out, rk, ctx)
    except DomainError:
        return {"v": [], "cls": cls, "nt": False, "skip": True}
    return {"v": v + v2, "cls": cls, "nt": stats["nontrivial"]}


def extra(tier, seed, record):
    import hypothesis
    from hypothesis import given, settings, HealthCheck, Phase
    n = 4 if tier == "quick" else 60
    done = {"n": 0}

    @hypothesis.seed(seed * 7919 + 17)
    @settings(max_examples=n, database=None, deadline=None, suppress_health_check=list(HealthCheck), phases=[Phase.generate])
    @given(st.one_of(_case(40, True), _case(40, False)))
    def run(case):
        case = dict(case, route="cli")
        case["pair"] = [[a, b, pairtab.strip_has(pd)] for a, b, pd in case["pair"]]
        res = check_case(case)
        res["cls"] = list(res.get("cls", [])) + ["route:cli"]
        if not res.get("skip"):
            done["n"] += 1
        record(case, res)
    run()
    return {"cli_runs": done["n"]}
