"""C06 -- built-in potential forms evaluate their documented formula and argument order.

Generated: (form, parameter vector in the form's domain incl. zero / negative /
integer values, polynomial orders 0..8, separations in (0, 30]).
Routes: potentialfunctions.f(r,*p) | potentialforms.f(*p)(r) | 'as.NAME p...' in
[Pair], [EAM-Embed], [EAM-Density] | as.NAME(r,p...) inside a custom formula.
Oracle: reference closed forms (vlib.forms, typed in from the documentation)
evaluated with a cancellation-aware rounding scale; all routes must also agree
with each other.
"""
from hypothesis import strategies as st

from vlib import bootstrap, gen, model, render, libroute
from vlib.num import Jet, DomainError, EPS
from vlib import forms as F

bootstrap.activate()
from atsim.potentials import potentialfunctions as pfun  # noqa: E402
from atsim.potentials import potentialforms as pform  # noqa: E402

ID = "C06"
LEVEL = "exploration"
RULE = ("Hypothesis draws a built-in form, a parameter vector from its documented domain (ints and floats, "
        "zero and negative values, polynomial orders 0..8) and 4..8 separations in (0,30]; each is evaluated "
        "through up to four routes and compared with an independent closed form (tolerance 256 eps x "
        "accumulated term magnitudes). One stratum per form re-expresses it in other units (energies x 10^e, lengths x "
        "10^l: SI and six others) so that parameters of extreme but valid magnitude occur. Non-trivial = all parameters non-zero and pairwise distinct (so a "
        "swapped or dropped parameter changes the value); distinct = distinct canonical JSON.")
ASSUMPTIONS = [
    "ZBL and Tang-Toennies references use the constants the module itself declares as its closed form "
    "(universal ZBL; Bohr/Hartree conversion 0.5292, 27.211), not the LAMMPS-variant formula printed in the RST",
    "the four-range Buckingham interior is compared with an independent solution of the documented constraint "
    "system (tolerance scaled by the condition number of that system)",
]
FORMS = gen.BUILTIN + ["buck4"]
REQUIRED = dict(("cell:%s:%s" % (f, r), 8) for f in FORMS for r in ("forms", "potable")
                ) | dict(("cell:%s:%s" % (f, r), 8) for f in gen.BUILTIN for r in ("functions", "formula")) | {"other_units": 40, "two_parameter_sets_checked": 100, "twin_parameter_vectors": 15}


# parameters that may take any real value (a nudged copy stays inside the form's domain)
EDITABLE = {"coul": [0, 1], "constant": [0], "polynomial": "all", "exponential": [0], "sqrt": [0], "morse": [2], "buck": [0, 2],
            "bornmayer": [0], "hbnd": [0, 1], "lj": [0], "exp_spline": "all"}


@st.composite
def _case_for(draw, name):
    return draw(_case(name))


@st.composite
def _case(draw, name=None):
    name = name or draw(st.sampled_from(FORMS))
    p = list(draw(gen.form_params(name)))
    rs = draw(st.lists(gen.fl(0.02, 30.0), min_size=4, max_size=8))
    rs = [r for r in rs if r > 0]
    if name == "buck4":
        rs.extend([p[3], p[4], p[5], (p[3] + p[4]) / 2, (p[4] + p[5]) / 2])
    # a second parameter vector for the same form, evaluated at the SAME separations in between: the value
    # of a form depends on (r, parameters) only, not on what was evaluated before
    p2 = list(draw(gen.form_params(name)))
    ed = EDITABLE.get(name)
    if ed and draw(st.booleans()):
        # ... or the SAME vector with one parameter nudged (v+1, v-1, -v, 2v, v/2): near-equal argument lists
        p2 = list(p)
        idx = list(range(len(p))) if ed == "all" else [i for i in ed if i < len(p)]
        i = draw(st.sampled_from(idx))
        v = p[i]
        p2[i] = draw(st.sampled_from([v + 1, v - 1, -v, 2 * v, v / 2.0 if isinstance(v, float) or v % 2 else v // 2]))
    return {"form": name, "p": p, "rs": rs, "p_alt": p2}


@st.composite
def _twins(draw):
    """two parameter vectors that differ in one value only, the two values being 'twins' for Python containers:
    -1 and -2 have the same hash in CPython, 1 / 1.0 / True are equal - anything memoised on arguments meets them"""
    name = draw(st.sampled_from(sorted(EDITABLE)))
    case = draw(_case_for(name))
    p, p2 = list(case["p"]), list(case["p"])
    ed = EDITABLE[name]
    idx = list(range(len(p))) if ed == "all" else [i for i in ed if i < len(p)]
    i = draw(st.sampled_from(idx))
    a, b = draw(st.sampled_from([(-1, -2), (-2, -1), (-1.0, -2.0), (-2.0, -1), (2, 2.5), (1, 1.5)]))
    p[i], p2[i] = a, b
    case.update({"p": p, "p_alt": p2, "twins": True})
    return case


@st.composite
def _units(draw, name):
    """the same functions in other units (parameters of extreme but valid magnitude, e.g. SI)"""
    e, l = draw(st.sampled_from([(-19, -10), (0, -10), (-19, 0), (3, 1), (-25, -8), (12, 2), (20, -6), (-6, 8)]))
    p = gen.rescale(name, draw(gen.form_params(name)), e, l)
    p2 = gen.rescale(name, draw(gen.form_params(name)), e, l)
    L = 10.0 ** l
    rs = [r * L for r in draw(st.lists(gen.fl(0.02, 30.0), min_size=4, max_size=8)) if r > 0]
    if name == "buck4":
        rs.extend([p[3], p[4], p[5], (p[3] + p[4]) / 2, (p[4] + p[5]) / 2])
    return {"form": name, "p": p, "rs": rs, "p_alt": p2, "units": [e, l]}


def strategy(tier):
    return _case()


def strata(tier):
    # one stratum per form: Hypothesis' sampled_from is too clumpy at 100 examples to reach every form
    n = len(gen.UNIT_FORMS)
    return [("natural units", _case(), 6 * n), ("twins", _twins(), 8)] + [("other units:" + f, _units(f), 1) for f in gen.UNIT_FORMS]


def budget(tier):
    if tier == "quick":
        return {"examples": 700}
    return {"examples": 5000, "shards": 16}


def _nontrivial(p):
    vals = [float(x) for x in p]
    return len(vals) > 0 and all(v != 0 for v in vals) and len(set(vals)) == len(vals)


def validate(case):
    from vlib import forms as F_
    ar = F_.ARITY.get(case["form"], 6 if case["form"] == "buck4" else None)
    if ar is not None and len(case["p"]) != ar:
        return False
    if case["form"] == "polynomial" and not case["p"]:
        return False
    if "p_alt" in case:
        if ar is not None and len(case["p_alt"]) != ar:
            return False
        if case["form"] == "polynomial" and not case["p_alt"]:
            return False
    return all(r > 0 for r in case["rs"]) and len(case["rs"]) > 0


def check_case(case):
    name, p, rs = case["form"], case["p"], case["rs"]
    v = []
    cls = ["other_units"] if case.get("units") else []
    if case.get("twins"):
        cls.append("twin_parameter_vectors")
    if any(0 < abs(x) < 1e-16 for x in p):
        cls.append("parameter_below_1e-16:" + name)
    node = {"k": "form", "name": name, "p": p}
    pd = {"ranges": [{"m": None, "s": None, "body": node}]}
    ref = model.Ref()
    routes = {}
    try:
        if name != "buck4":
            fn = getattr(pfun, name)
            routes["functions"] = lambda r: fn(r, *p)
        routes["forms"] = getattr(pform, name)(*p)
        # potable: the same definition in [Pair], [EAM-Embed], [EAM-Density]
        m = {"tabulation": {"target": "setfl", "nr": 5, "cutoff": 2.0, "nrho": 5, "cutoff_rho": 2.0},
             "pair": [("Al", "Al", pd)], "embed": [("Al", pd)], "density": [("Al", pd)]}
        # (every third case with the parameters spelled as other programs print them: '.3', '1000.', '+32.', '1E-05')
        txt = render.model_text(m, dict(render.DEFAULT_STYLE, numspell=(len(repr(p)) % 3 == 0)))
        fns = libroute.functions(libroute.read_text(txt))
        routes["potable"] = fns["pair:Al-Al"]
        routes["potable_embed"] = fns["embed:Al"]
        routes["potable_density"] = fns["density:Al"]
        if name != "buck4":
            cf = {"name": "wrapf", "params": ["r"], "expr": {"o": "as", "f": name, "args": [
                {"o": "var", "n": "r"}] + [{"o": "num", "v": x} for x in p]}}
            m2 = {"tabulation": {"target": "LAMMPS", "nr": 5, "cutoff": 2.0},
                  "env": {"custom": [cf]},
                  "pair": [("A", "B", {"ranges": [{"m": None, "s": None,
                                                    "body": {"k": "custom", "name": "wrapf", "p": []}}]})]}
            txt2 = render.model_text(m2)
            routes["formula"] = libroute.functions(libroute.read_text(txt2))["pair:A-B"]
    except Exception as e:
        return {"v": [("setup:exception:%s@%s" % (type(e).__name__, libroute.innermost_atsim_frame(e)),
                       "%s %r: %r" % (name, p, e))], "cls": cls, "nt": False}
    for rt in routes:
        cls.append("cell:%s:%s" % (name, rt))
    checked = 0
    for r in rs:
        try:
            j = ref.simple(node, Jet.var(r, 0), model.Trace())
        except DomainError:
            continue
        want, tol = j.v, 256 * EPS * j.c[0].e + 1e-300
        # literals inside a custom formula pass through exprtk's own number parser, which is accurate to an
        # ulp or two only (2.53 -> 2.5300000000000002): the formula route gets the parameter sensitivity on top
        tol_formula = tol
        if name != "buck4":
            jj = j
            for i, pv in enumerate(p):
                if float(pv) != int(pv) or abs(pv) >= 2.0 ** 53:   # written with a fraction or an exponent
                    q = list(p)
                    q[i] = pv * (1.0 + model._PERT)
                    try:
                        jj = model._inflate(jj, F.REF[name](Jet.var(r, 0), *q))
                    except DomainError:
                        pass
            tol_formula = 256 * EPS * jj.c[0].e + 1e-300
        got = {}
        for rt, f in routes.items():
            try:
                got[rt] = f(r)
            except Exception as e:
                v.append(("%s:exception:%s" % (rt.split("_")[0], type(e).__name__),
                          "%s %r at r=%r via %s: %r" % (name, p, r, rt, e)))
                continue
            if libroute.realnum(got[rt]) is None:
                v.append(("%s:non_real:%s" % (rt.split("_")[0], name),
                          "as.%s %r at r=%r via %s returned %r" % (name, p, r, rt, got[rt])))
                del got[rt]
                continue
            t_ = tol_formula if rt == "formula" else tol
            if not abs(got[rt] - want) <= t_:
                v.append(("%s:value:%s" % (rt.split("_")[0], name),
                          "as.%s %r at r=%r via %s: got %r, documented formula gives %r (tol %.3g)" % (
                              name, p, r, rt, got[rt], want, t_)))
        vals = [x for rt, x in got.items() if rt != "formula"]
        if vals and max(vals) - min(vals) > 1e-12 * j.c[0].e + 1e-300:
            v.append(("routes_disagree:%s" % name, "as.%s %r at r=%r: %r" % (name, p, r, got)))
        checked += 1
    # history independence: f(r, p), f(r, p_alt), f(r, p) at the same r through the shared module-level objects
    p2 = case.get("p_alt")
    if p2 is not None and name != "buck4" and not v:
        fn = getattr(pfun, name)
        fac = getattr(pform, name)
        for r in rs[:4]:
            try:
                j1 = ref.simple(node, Jet.var(r, 0), model.Trace())
                j2 = ref.simple({"k": "form", "name": name, "p": p2}, Jet.var(r, 0), model.Trace())
            except DomainError:
                continue
            try:
                seq = [fn(r, *p), fn(r, *p2), fn(r, *p), fac(*p2)(r), fac(*p)(r)]
            except Exception as e:
                v.append(("sequence:exception:%s" % type(e).__name__, "%s %r / %r at r=%r: %r" % (name, p, p2, r, e)))
                break
            wants = [j1, j2, j1, j2, j1]
            for k, (got_, w) in enumerate(zip(seq, wants)):
                if libroute.realnum(got_) is None or not abs(got_ - w.v) <= 256 * EPS * w.c[0].e + 1e-300:
                    v.append(("sequence:value:%s" % name, "as.%s evaluated at r=%r with parameters %r, %r, %r, ...: call %d "
                              "returned %r, documented formula gives %r" % (name, r, p, p2, p, k + 1, got_, w.v)))
                    break
            if v:
                break
        cls.append("sequence_checked")
    # ... and through a potable file that holds BOTH parameter sets (two [Pair] entries and a formula calling the form
    # with each of them), evaluated alternately at the same separations
    if p2 is not None and not v and list(p2) != list(p):
        node2 = {"k": "form", "name": name, "p": p2}
        pdb = {"ranges": [{"m": None, "s": None, "body": node2}]}
        m3 = {"tabulation": {"target": "LAMMPS", "nr": 5, "cutoff": 2.0}, "env": {"custom": []},
              "pair": [("A", "A", pd), ("A", "B", pdb)]}
        if name != "buck4":
            def call(q):
                return {"o": "as", "f": name, "args": [{"o": "var", "n": "r"}] + [{"o": "num", "v": x} for x in q]}
            m3["env"]["custom"] = [{"name": "bothf", "params": ["r", "w"], "expr": {
                "o": "+", "a": {"o": "*", "a": {"o": "var", "n": "w"}, "b": call(p)}, "b": call(p2)}}]
            m3["pair"].append(("B", "B", {"ranges": [{"m": None, "s": None, "body": {"k": "custom", "name": "bothf", "p": [1]}}]}))
        txt3 = render.model_text(m3)
        try:
            f3 = libroute.functions(libroute.read_text(txt3))
            for r in rs[:4]:
                try:
                    j1 = ref.simple(node, Jet.var(r, 0), model.Trace())
                    j2 = ref.simple(node2, Jet.var(r, 0), model.Trace())
                except DomainError:
                    continue
                seq = [("A-A", j1), ("A-B", j2), ("A-A", j1)] + ([("B-B", j1 + j2)] if name != "buck4" else [])
                for k, (lab, w) in enumerate(seq):
                    got_ = libroute.realnum(f3["pair:" + lab](r))
                    # the formula route parses its literals with exprtk (a couple of ulp per literal)
                    t_ = (256 if lab != "B-B" else 4096) * EPS * w.c[0].e + 1e-300
                    if got_ is None or not abs(got_ - w.v) <= t_:
                        v.append(("two_parameter_sets:%s" % name, "as.%s with parameters %r (A-A) and %r (A-B) in one file, r=%r: "
                                  "evaluation %d (%s) returned %r, documented formula gives %r\n%s" % (name, p, p2, r, k + 1, lab, got_, w.v, txt3)))
                        break
                if v:
                    break
            cls.append("two_parameter_sets_checked")
        except Exception as e:
            v.append(("two_parameter_sets:exception:%s@%s" % (type(e).__name__, libroute.innermost_atsim_frame(e)), "%r\n%s" % (e, txt3)))
    if checked == 0:
        return {"v": v, "cls": cls, "nt": False, "skip": True}
    nt = _nontrivial(p)
    if nt:
        cls.append("params_distinct_nonzero")
    return {"v": v, "cls": cls, "nt": nt}
