"""C07 -- offered first/second derivatives are the true derivatives of the energy.

Strata
  expr:*      generated expressions (built-ins, sum/product/pow/trans/spline, multi-range,
              buck4, table forms, custom formulas, Python callables with 0/1/2 analytic
              derivative levels) built from potable text and through the Python API
  locality    instrumented operands: a component with an analytic derivative is never
              evaluated at perturbed arguments; one without is differenced at r +- h/2 only
  potential   Potential.force == -derivative (analytic or documented numerical fallback)
Oracle per separation: (1) literal statement -- f.deriv vs an 8th-order central
difference of f itself, f.deriv2 vs the same of f.deriv; (2) reference jets
(vlib.model), which also see errors a symmetric difference would mask.
"""
import math

from hypothesis import strategies as st

from vlib import bootstrap, gen, model, render, libroute, build_api
from vlib.d8 import d8
from vlib.num import DomainError, EPS

bootstrap.activate()
import atsim.potentials as ap  # noqa: E402
from atsim.potentials import potentialforms as pf  # noqa: E402
from atsim.potentials import Multi_Range_Defn, create_Multi_Range_Potential_Form  # noqa: E402
from atsim.potentials import spline as spl  # noqa: E402

ID = "C07"
LEVEL = "exploration"
RULE = ("Stratified Hypothesis generation of potential expressions to depth 3 (built-in forms with domain "
        "parameters, sum/product/pow/trans/spline, multi-range, buck4, table forms, custom formulas and Python "
        "callables offering 0, 1 or 2 analytic derivative levels), each built from potable text and through the "
        "Python API and probed at 5..8 separations in [0, 30] (0 only for forms regular there), away from range "
        "boundaries (same piecewise decisions over the stencil). Non-trivial = depth >= 2 or a product/pow/trans/"
        "spline node, with |derivative| > 1e-6 at some probe; distinct = distinct canonical JSON. Plus "
        "instrumented-operand locality cases and Potential.force cases.")
ASSUMPTIONS = [
    "deriv2 obtained by numerically differentiating a numerical derivative (h=1e-6 twice, noise ~4e-3|f|) "
    "cannot support an equality and is counted as unchecked, not as a pass",
    "the admissible error of the documented numerical fallback (central difference, h=1e-6) is modelled as "
    "8 eps sum|terms|/h + h^2 |f'''|/24 and propagated through the combinators",
    "comparisons skip separations whose 8-point stencil crosses a range boundary / spline join / if() threshold",
]
REQUIRED = {"stratum:locality": 20, "stratum:potential": 20, "route:text": 40, "route:api": 40,
            "checked:deriv": 100, "checked:deriv2": 60, "leaf:custom": 10, "leaf:table": 5,
            "mod:product": 10, "mod:pow": 5, "mod:trans": 10, "mod:spline": 5, "at_zero": 10,
            "leafkind:units": 15, "mixed_ranges": 10, "factor_exactly_zero": 5, "mixed_modifier": 10, "stratum:table_slope": 10, "checked:table_slope": 200, "potential:near_origin": 10}


@st.composite
def _expr_case(draw, depth, kind):
    customs, tables = [], []
    if kind in ("custom", "pycallable"):
        customs = draw(gen.custom_forms(2, 2, min_forms=1))
    if kind == "table":
        tables = draw(gen.table_forms(2, 14))
        if not tables:
            tables = [draw(gen.table_form("tab1", 14))]
    if kind == "regular0":
        pd = draw(gen.potdef(depth, [], [], max_ranges=3, leaf_names=gen.REGULAR + ["exponential"], allow_spline=False, allow_pow=False))
    else:
        pd = draw(gen.potdef(depth, customs, tables, max_ranges=3, analytic_only=(kind in ("analytic", "table"))))
    if kind == "table" and not any(b["k"] == "table" for b in model.walk_simple(pd)):
        leaf = {"ranges": [{"m": None, "s": None, "body": {"k": "table", "name": tables[0]["name"]}}]}
        pd = {"ranges": [{"m": None, "s": None, "body": {"k": "mod", "m": draw(st.sampled_from(["sum", "product"])),
                                                         "args": [pd, leaf]}}]}
    if kind == "pycallable":
        lv = draw(st.lists(st.integers(0, 2), min_size=8, max_size=8))
        i = [0]

        def tag(node):
            if isinstance(node, dict):
                if node.get("k") == "custom":
                    node = dict(node, has=lv[i[0] % len(lv)])
                    i[0] += 1
                    return node
                return dict((k, tag(v)) for k, v in node.items())
            if isinstance(node, list):
                return [tag(v) for v in node]
            return node
        pd = tag(pd)
    rs = draw(st.lists(gen.fl(0.05, 30.0), min_size=5, max_size=8))
    if kind == "regular0":
        pd = _open_left(pd)
        rs = rs[:4] + [0.0, draw(gen.fl(-1.0, 0.0))]
    return {"kind": "expr", "leafkind": kind, "env": {"custom": customs, "table": tables}, "pd": pd, "rs": rs}


@st.composite
def _units_case(draw, name):
    """a built-in form in other units (energies x 10^e, lengths x 10^l): parameters and separations of extreme
    but valid magnitude; the derivatives offered scale as E/L and E/L^2"""
    e, l = draw(st.sampled_from([(-19, -10), (0, -10), (-19, 0), (3, 1), (-25, -8), (12, 2), (20, -6), (-6, 8)]))
    p = gen.rescale(name, draw(gen.form_params(name)), e, l)
    L = 10.0 ** l
    rs = [r * L for r in draw(st.lists(gen.fl(0.05, 30.0), min_size=5, max_size=8))]
    pd = {"ranges": [{"m": None, "s": None, "body": {"k": "form", "name": name, "p": p}}]}
    return {"kind": "expr", "leafkind": "units", "env": {"custom": [], "table": []}, "pd": pd, "rs": rs, "lscale": L,
            "escale": 10.0 ** e}


@st.composite
def _mixed_ranges_case(draw, pycallable=False):
    """multi-range definitions that mix ranges with and without analytic derivatives, in every order: the numerical
    fallback applies to the ranges that need it (and to no other), each differentiated as ITS OWN function"""
    customs = draw(gen.custom_forms(2, 2, min_forms=1))
    n = draw(st.integers(2, 4))
    kinds = draw(st.lists(st.sampled_from(["custom", "form"]), min_size=n, max_size=n).filter(lambda l: len(set(l)) == 2))
    starts = [0.0]
    for _ in range(n - 1):
        starts.append(round(starts[-1] + draw(gen.fl(0.4, 4.0, sig=2)), 2))
    rgs = []
    for i, (k, s0) in enumerate(zip(kinds, starts)):
        body = draw(gen.custom_leaf(customs)) if k == "custom" else draw(gen.form_leaf(gen.SMOOTH))
        if k == "custom" and pycallable:
            body = dict(body, has=draw(st.integers(0, 2)))
        rgs.append({"m": (None if i == 0 and draw(st.booleans()) else draw(st.sampled_from([">", ">="]))), "s": (None if i == 0 else s0),
                    "body": body})
        if i == 0 and rgs[0]["m"] is not None:
            rgs[0]["s"] = draw(st.sampled_from([0, 0.25]))
        elif i == 0:
            rgs[0]["s"] = None
    rs = [round((a + b) / 2.0, 3) for a, b in zip(starts, starts[1:] + [starts[-1] + 3.0])] + draw(st.lists(gen.fl(0.3, 12.0), min_size=2, max_size=4))
    return {"kind": "expr", "leafkind": "pycallable" if pycallable else "custom", "env": {"custom": customs, "table": []},
            "pd": {"ranges": [rgs[0]] + list(draw(st.permutations(rgs[1:])))}, "rs": rs,
            "mixed": True}


def _v(n):
    return {"o": "var", "n": n}


# hand-written custom forms with plenty of slope and curvature everywhere on (0, 30]
CURVED = [
    {"name": "invsq", "params": ["r", "a"], "expr": {"o": "/", "a": _v("a"), "b": {"o": "^", "a": _v("r"), "p": 2}}},
    {"name": "gaussf", "params": ["r", "a", "w"], "expr": {"o": "*", "a": _v("a"), "b": {"o": "call", "f": "exp", "args": [
        {"o": "neg", "a": {"o": "^", "a": {"o": "/", "a": _v("r"), "b": _v("w")}, "p": 2}}]}}},
    {"name": "quadf", "params": ["r", "a", "b"], "expr": {"o": "+", "a": {"o": "*", "a": _v("a"), "b": {"o": "^", "a": _v("r"), "p": 2}},
                                                        "b": {"o": "*", "a": _v("b"), "b": _v("r")}}},
    {"name": "expdec", "params": ["r", "a", "w"], "expr": {"o": "*", "a": _v("a"), "b": {"o": "call", "f": "exp", "args": [
        {"o": "neg", "a": {"o": "/", "a": _v("r"), "b": _v("w")}}]}}},
]


@st.composite
def _mixed_modifier_case(draw, pycallable=False):
    """sum / product (also nested, also with ranged arguments) of components WITH and WITHOUT analytic derivatives:
    each component contributes its own first and second derivative, the numerical fallback standing in only for
    the components that need it"""
    def custom():
        f = draw(st.sampled_from(CURVED))
        ps = [draw(gen.fl(0.5, 4.0)) for _ in f["params"][1:]]
        b = {"k": "custom", "name": f["name"], "p": ps}
        if pycallable:
            b["has"] = draw(st.integers(0, 2))
        return b

    def single(b, ranged=False):
        if ranged and draw(st.booleans()):
            return {"ranges": [{"m": draw(st.sampled_from([">", ">="])), "s": draw(st.sampled_from([0, 0.5, 1.0])), "body": b}]}
        return {"ranges": [{"m": None, "s": None, "body": b}]}
    smooth = gen.form_leaf(["bornmayer", "buck", "morse", "polynomial", "lj", "constant", "exponential"])
    m = draw(st.sampled_from(["sum", "sum", "product"]))
    args = [single(draw(smooth), True), single(custom(), True)]
    if draw(st.booleans()):
        args.append(single(draw(st.one_of(smooth, st.just(None))) or custom(), True))
    args = list(draw(st.permutations(args)))
    node = {"k": "mod", "m": m, "args": args}
    if draw(st.integers(0, 2)) == 0:
        node = {"k": "mod", "m": draw(st.sampled_from(["sum", "product"])), "args": list(draw(st.permutations(
            [single(node), single(draw(st.one_of(smooth, st.just(None))) or custom())])))}
    return {"kind": "expr", "leafkind": "pycallable" if pycallable else "custom", "env": {"custom": CURVED, "table": []},
            "pd": single(node), "rs": draw(st.lists(gen.fl(0.6, 8.0), min_size=5, max_size=7)), "mixed_mod": True}


@st.composite
def _zero_factor_case(draw, pycallable=False):
    """a product one of whose factors is EXACTLY zero at a probe while its slope is not (a node of a polynomial,
    the origin for c*r): (fg)' = f'g there, and for a double zero (fg)'' = f''g"""
    r0 = draw(st.sampled_from([0.0, 0.0, 0.5, 1.0, 1.5, 2.0, 3.0]))
    c = draw(st.sampled_from([1, 2, 0.5, -1.5, 3.0]))
    shape = draw(st.sampled_from(["simple", "simple", "double"]))
    if shape == "simple":
        zero = {"k": "form", "name": "polynomial", "p": [-c * r0, c]}
    else:
        zero = {"k": "form", "name": "polynomial", "p": [c * r0 * r0, -2 * c * r0, c]}        # c (r - r0)^2
    other = draw(gen.form_leaf(["bornmayer", "morse", "polynomial", "constant", "exp_spline"]))

    def single(b):
        return {"ranges": [{"m": ">", "s": -2.0, "body": b}]}
    args = [single(zero), single(other)]
    if draw(st.booleans()):
        args.reverse()
    node = {"k": "mod", "m": "product", "args": args}
    if draw(st.integers(0, 2)) == 0:
        node = {"k": "mod", "m": "sum", "args": [single(node), single(draw(gen.form_leaf(["bornmayer", "polynomial"])))]}
    rs = [r0, r0 + 0.25, r0 + 1.0] + ([r0 - 0.125] if r0 > 0.2 else [])
    return {"kind": "expr", "leafkind": "regular0", "env": {"custom": [], "table": []}, "pd": single(node), "rs": rs,
            "zero_factor": True}


def _open_left(pd):
    """move every first range start to -2 so that forms regular at the origin are reached at r <= 0"""
    rgs = []
    for i, rg in enumerate(pd["ranges"]):
        b = rg["body"]
        if b["k"] == "mod":
            b = dict(b, args=[_open_left(a) for a in b["args"]])
        rg = dict(rg, body=b)
        if i == 0:
            rg["m"], rg["s"] = ">", -2.0
        rgs.append(rg)
    return {"ranges": rgs}


@st.composite
def _locality_case(draw):
    op = draw(st.sampled_from(["plus", "product", "pow", "multirange", "spline", "potential"]))
    return {"kind": "locality", "op": op,
            "a": [draw(gen.fl(0.5, 3.0)), draw(gen.fl(0.1, 1.0))],     # a(r) = A + B r + 0.1 r^2 > 0
            "b": [draw(gen.fl(0.5, 3.0)), draw(gen.fl(0.1, 1.0))],
            "a_has": draw(st.integers(1, 2)), "b_has": draw(st.integers(0, 1)),
            "r": draw(gen.fl(0.3, 6.0)), "swap": draw(st.booleans())}


@st.composite
def _potential_case(draw):
    customs = draw(gen.custom_forms(2, 2, min_forms=1))
    pd = draw(gen.potdef(1, customs, [], max_ranges=2))
    return {"kind": "potential", "env": {"custom": customs, "table": []}, "pd": pd,
            "rs": draw(st.lists(gen.fl(0.1, 20.0), min_size=4, max_size=6)),
            "h": draw(st.sampled_from([1e-6, 1e-6, 1e-5, 1e-4]))}


@st.composite
def _slope_case(draw):
    pd = draw(gen.potdef(draw(st.sampled_from([0, 1, 1])), [], [], max_ranges=2, analytic_only=True))
    cutoff = draw(st.sampled_from([3.0, 5.0, 6.5, 10.0]))
    plateau = draw(st.integers(0, 2)) == 0
    if plateau:
        # whole-number energy / derivative on the first rows (Python ints), a curved form further out
        sp = draw(gen.special_pair_model("int_plateau"))
        pd, cutoff = sp["pair"][0][2], sp["cutoff"]
    return {"kind": "table_slope", "env": {"custom": [], "table": []}, "pd": pd,
            "cutoff": cutoff, "nr": draw(st.sampled_from([801, 1201, 2001])),
            "target": draw(st.sampled_from(["LAMMPS", "DL_POLY"])), "int_plateau": plateau,
            "int_returns": draw(st.integers(0, 2)) == 0}


@st.composite
def _potential_origin_case(draw):
    """Potential(...) around a callable without analytic derivative, a user-chosen coarse differentiation step h
    and separations closer to the origin than h/2 (the stencil reaches negative arguments)"""
    a, b, c = draw(gen.fl(0.5, 5.0)), draw(gen.fl(-2.0, 2.0)), draw(gen.fl(0.5, 3.0))
    smooth = {"name": "smoothf", "params": ["r", "a", "b", "w"], "expr": {
        "o": "+", "a": {"o": "*", "a": {"o": "var", "n": "a"}, "b": {"o": "call", "f": "exp", "args": [
            {"o": "neg", "a": {"o": "/", "a": {"o": "var", "n": "r"}, "b": {"o": "var", "n": "w"}}}]}},
        "b": {"o": "*", "a": {"o": "var", "n": "b"}, "b": {"o": "^", "a": {"o": "var", "n": "r"}, "p": 2}}}}
    pd = {"ranges": [{"m": ">", "s": -2.0, "body": {"k": "custom", "name": "smoothf", "p": [a, b, c]}}]}
    h = draw(st.sampled_from([0.01, 0.05, 0.2]))
    rs = [h * 0.25, h * 0.4, h * 0.49, h * 0.75, draw(gen.fl(0.3, 3.0)), 0.0]
    return {"kind": "potential", "env": {"custom": [smooth], "table": []}, "pd": pd, "rs": rs, "h": h, "origin": True}


def strategy(tier):
    return _expr_case(2, "analytic")


def strata(tier):
    return [
        ("expr:analytic:d1", _expr_case(1, "analytic"), 2), ("expr:analytic:d2", _expr_case(2, "analytic"), 3),
        ("expr:analytic:d3", _expr_case(3, "analytic"), 2), ("expr:custom", st.one_of(_expr_case(1, "custom"), _expr_case(2, "custom")), 3),
        ("expr:pycallable", st.one_of(_expr_case(1, "pycallable"), _expr_case(2, "pycallable")), 3),
        ("expr:table", _expr_case(2, "table"), 2),
        ("expr:regular_at_origin", st.one_of(_expr_case(1, "regular0"), _expr_case(2, "regular0")), 2),
        ("locality", _locality_case(), 2), ("potential", _potential_case(), 2),
        ("potential_near_origin", _potential_origin_case(), 1),
        ("table_slope", _slope_case(), 1),
        ("expr:mixed_ranges", st.one_of(_mixed_ranges_case(False), _mixed_ranges_case(True)), 2),
        ("expr:zero_factor", _zero_factor_case(), 1),
        ("expr:mixed_modifier", st.one_of(_mixed_modifier_case(False), _mixed_modifier_case(False), _mixed_modifier_case(True)), 2),
    ] + [("expr:units:" + f, _units_case(f), 0.2) for f in gen.UNIT_FORMS if f != "zero"]


def budget(tier):
    if tier == "quick":
        return {"examples": 450}
    return {"examples": 3000, "shards": 16}


# ---------------------------------------------------------------------------

def _tol(en, extra=0.0):
    return 256 * EPS * en.e + 2 * en.u + extra + 1e-300


def _check_fn(f, route, pd, ref, rs, v, cls, stats, text, lscale=1.0):
    for r in rs:
        try:
            j, tr = model.evaluate(ref, pd, r, order=2)
        except DomainError:
            continue
        if any(t[0] == "ambiguous" for t in tr):
            continue
        if not all(math.isfinite(c.v) and abs(c.v) < 1e150 for c in j.c):
            continue
        # "where it is differentiable ... away from range boundaries": same piecewise
        # decisions (ranges, spline regions, if/min/max/abs branches) on both sides of r
        if not model.same_piece(ref, pd, r, 1e-5 * lscale):
            stats["at_boundary_skipped"] = stats.get("at_boundary_skipped", 0) + 1
            continue
        # choose a stencil that stays inside one piece of the definition
        h = 0.01 * r if r > 0 else 0.01 * lscale
        ok_piece = False
        for _ in range(6):
            if r - 4.5 * h > -1e9 and model.same_piece(ref, pd, r, 4.5 * h) and model.same_piece(ref, pd, r, 2.0 * h):
                ok_piece = True
                break
            h /= 4.0
        d1r, d2r = j.d(1), j.d(2)
        if hasattr(f, "deriv"):
            try:
                got = f.deriv(r)
            except Exception as e:
                v.append(("%s:deriv:exception:%s@%s" % (route, type(e).__name__, libroute.innermost_atsim_frame(e)),
                          "r=%r: %r\n%s" % (r, e, text)))
                continue
            g = libroute.realnum(got)
            if math.isinf(d1r.u):
                stats["deriv_unchecked"] = stats.get("deriv_unchecked", 0) + 1
            elif g is None or not abs(g - d1r.v) <= _tol(d1r, 1e-12 * abs(d1r.v)):
                v.append(("%s:deriv:vs_reference" % route,
                          "r=%r: deriv=%r, reference derivative %r (tol %.3g)\n%s" % (r, got, d1r.v, _tol(d1r), text)))
                continue
            else:
                stats["deriv"] = stats.get("deriv", 0) + 1
                if abs(d1r.v) > 1e-6:
                    stats["nonzero"] = True
                if ok_piece:
                    try:
                        nd, est = d8(f, r, h, scale=j.c[0].e)
                        if not abs(g - nd) <= 50 * est + 1e-9 * abs(g) + _tol(d1r):
                            v.append(("%s:deriv:vs_finite_difference" % route,
                                      "r=%r: deriv=%r but the 8th-order central difference of the same callable "
                                      "gives %r +- %.3g\n%s" % (r, got, nd, est, text)))
                        else:
                            stats["deriv_fd"] = stats.get("deriv_fd", 0) + 1
                    except (OverflowError, ZeroDivisionError, ValueError):
                        pass
        if hasattr(f, "deriv2"):
            try:
                got2 = f.deriv2(r)
            except Exception as e:
                v.append(("%s:deriv2:exception:%s@%s" % (route, type(e).__name__, libroute.innermost_atsim_frame(e)),
                          "r=%r: %r\n%s" % (r, e, text)))
                continue
            g2 = libroute.realnum(got2)
            if math.isinf(d2r.u):
                stats["deriv2_unchecked"] = stats.get("deriv2_unchecked", 0) + 1
            elif g2 is None or not abs(g2 - d2r.v) <= _tol(d2r, 1e-12 * abs(d2r.v)):
                v.append(("%s:deriv2:vs_reference" % route,
                          "r=%r: deriv2=%r, reference second derivative %r (tol %.3g)\n%s" % (
                              r, got2, d2r.v, _tol(d2r), text)))
            else:
                stats["deriv2"] = stats.get("deriv2", 0) + 1
                if ok_piece and hasattr(f, "deriv") and not math.isinf(d1r.u) and d1r.u == 0.0:
                    try:
                        nd, est = d8(f.deriv, r, h, scale=d1r.e)
                        if not abs(g2 - nd) <= 50 * est + 1e-9 * abs(g2) + _tol(d2r):
                            v.append(("%s:deriv2:vs_finite_difference" % route,
                                      "r=%r: deriv2=%r but the central difference of deriv gives %r +- %.3g\n%s" % (
                                          r, got2, nd, est, text)))
                    except (OverflowError, ZeroDivisionError, ValueError):
                        pass


def _check_expr(case):
    pd, env = case["pd"], case["env"]
    v, cls, stats = [], ["stratum:expr", "leafkind:" + case["leafkind"], "depth=%d" % model.depth(pd)], {}
    mods = model.modifiers_used(pd)
    cls.extend("mod:" + m for m in mods)
    kinds = set(b["k"] for b in model.walk_simple(pd))
    cls.extend("leaf:" + k for k in sorted(kinds) if k in ("custom", "table"))
    if any(b["k"] == "form" and b["name"] == "buck4" for b in model.walk_simple(pd)):
        cls.append("leaf:buck4")
    ref = model.Ref(env)
    rs = list(case["rs"])
    if case.get("mixed"):
        cls.append("mixed_ranges")
    if case.get("zero_factor"):
        cls.append("factor_exactly_zero")
    if case.get("mixed_mod"):
        cls.append("mixed_modifier")
    if case["leafkind"] == "regular0":
        cls.append("at_zero")
    else:
        rs = [r for r in rs if r > 0]
    txt = None
    # API route (Python callables may offer analytic derivatives)
    try:
        f_api = build_api.Builder(env).potdef(pd)
        cls.append("route:api")
        _check_fn(f_api, "api", pd, ref, rs, v, cls, stats, render.potdef_text(pd), case.get("lscale", 1.0))
    except DomainError:
        pass
    except Exception as e:
        v.append(("api:build:exception:%s@%s" % (type(e).__name__, libroute.innermost_atsim_frame(e)),
                  "%r\n%s" % (e, render.potdef_text(pd))))
    # potable text route (custom forms never have analytic derivatives there)
    if case["leafkind"] != "pycallable":
        m = {"tabulation": {"target": "LAMMPS", "nr": 5, "cutoff": 2.0}, "env": env, "pair": [("A", "B", pd)]}
        txt = render.model_text(m)
        try:
            f_txt = libroute.functions(libroute.read_text(txt))["pair:A-B"]
            cls.append("route:text")
            _check_fn(f_txt, "text", pd, ref, rs, v, cls, stats, txt, case.get("lscale", 1.0))
        except Exception as e:
            v.append(("text:build:exception:%s@%s" % (type(e).__name__, libroute.innermost_atsim_frame(e)),
                      "%r\n%s" % (e, txt)))
    for k in ("deriv", "deriv2", "deriv_fd", "deriv2_unchecked", "deriv_unchecked"):
        cls.extend(["checked:" + k] * stats.get(k, 0))
    nt = (model.depth(pd) >= 2 or bool(set(mods) & {"product", "pow", "trans", "spline"})) and bool(stats.get("nonzero"))
    return {"v": v, "cls": cls, "nt": nt, "skip": not stats}


def _regular_at_zero(pd):
    """every leaf reachable at r=0 is regular there and r=0 is not a boundary"""
    from vlib import forms as F
    for b in model.walk_simple(pd):
        if b["k"] == "form":
            if b["name"] == "buck4" or not F.regular_at_zero(b["name"], b["p"]):
                return False
            if b["name"] in ("sqrt", "exponential"):
                return False
        elif b["k"] in ("custom", "table", "splinekw"):
            return False
        elif b["k"] == "mod" and b["m"] in ("pow", "spline"):
            return False
    return True


# ---- locality --------------------------------------------------------------

class _Rec(object):
    """quadratic callable that records every argument it is evaluated at"""

    def __init__(self, A, B, has):
        self.A, self.B = A, B
        self.calls, self.dcalls, self.d2calls = [], [], []
        if has >= 1:
            self.deriv = self._deriv
        if has >= 2:
            self.deriv2 = self._deriv2

    def __call__(self, r):
        self.calls.append(r)
        return self.A + self.B * r + 0.1 * r * r

    def _deriv(self, r):
        self.dcalls.append(r)
        return self.B + 0.2 * r

    def _deriv2(self, r):
        self.d2calls.append(r)
        return 0.2

    def reset(self):
        del self.calls[:], self.dcalls[:], self.d2calls[:]


def _check_locality(case):
    v, cls = [], ["stratum:locality", "op:" + case["op"]]
    a = _Rec(case["a"][0], case["a"][1], case["a_has"])
    b = _Rec(case["b"][0], case["b"][1], case["b_has"])
    r = case["r"]
    op = case["op"]
    x, y = (b, a) if case["swap"] else (a, b)
    h = 1e-6
    try:
        if op == "plus":
            f = ap.plus(x, y)
        elif op == "product":
            f = ap.product(x, y)
        elif op == "pow":
            f = ap.pow(x, y)
        elif op == "multirange":
            f = create_Multi_Range_Potential_Form(Multi_Range_Defn(">", 0.0, x), Multi_Range_Defn(">=", r + 1.0, y))
        elif op == "spline":
            f = spl.SplinePotential(x, y, r + 0.5, r + 1.5)
        elif op == "potential":
            f = None
        a.reset()
        b.reset()
        if op == "potential":
            pa, pb = ap.Potential("A", "B", a), ap.Potential("A", "B", b)
            fa, fb = pa.force(r), pb.force(r)
            if abs(fa + (a.B + 0.2 * r)) > 1e-12:
                v.append(("locality:potential_force", "force %r != -deriv %r" % (fa, a.B + 0.2 * r)))
            if a.calls:
                v.append(("locality:analytic_component_perturbed",
                          "Potential.force evaluated an energy function that offers deriv at %r" % (a.calls,)))
            want_fb = -(b.B + 0.2 * r)
            if case["b_has"] == 0:
                if sorted(b.calls) != sorted([r - h / 2, r + h / 2]):
                    v.append(("locality:fallback_points", "numerical fallback evaluated at %r, expected r -+ h/2 = %r" % (
                        b.calls, [r - h / 2, r + h / 2])))
                if abs(fb - want_fb) > 1e-5:
                    v.append(("locality:potential_force", "numerical force %r vs %r" % (fb, want_fb)))
            return {"v": v, "cls": cls, "nt": True}
        d = f.deriv(r)
    except Exception as e:
        return {"v": [("locality:exception:%s@%s" % (type(e).__name__, libroute.innermost_atsim_frame(e)),
                       "%s: %r" % (op, e))], "cls": cls, "nt": False}
    # every evaluation of a component with an analytic derivative is at r itself
    for comp in ((x,) if op in ("multirange", "spline") else (a, b)):
        bad = [t for t in comp.calls + comp.dcalls if t != r]
        if hasattr(comp, "deriv") and bad:
            v.append(("locality:analytic_component_perturbed",
                      "%s: component with analytic derivative evaluated at %r while differentiating at r=%r" % (op, bad, r)))
    other = y
    if op in ("multirange", "spline") and not hasattr(x, "deriv"):
        if sorted(x.calls) != sorted([r - h / 2, r + h / 2]):
            v.append(("locality:fallback_points", "%s: selected component without derivative evaluated at %r" % (op, x.calls)))
    if op in ("plus", "product", "pow"):
        if not hasattr(b, "deriv"):
            pts = sorted(set(b.calls) - {r})
            if pts != sorted([r - h / 2, r + h / 2]):
                v.append(("locality:fallback_points",
                          "%s: component without derivative evaluated at %r, expected {r, r-h/2, r+h/2} (h=1e-6)" % (op, b.calls)))
        # value of the derivative
        fa, da = a.A + a.B * r + 0.1 * r * r, a.B + 0.2 * r
        fb, db = b.A + b.B * r + 0.1 * r * r, b.B + 0.2 * r
        if case["swap"]:
            fa, da, fb, db = fb, db, fa, da
        want = {"plus": da + db, "product": fa * db + fb * da,
                "pow": fa ** fb * (db * math.log(fa) + fb * da / fa)}[op]
        if abs(d - want) > 1e-6 * max(1.0, abs(want)):
            v.append(("locality:value", "%s: deriv %r, expected %r" % (op, d, want)))
        # second derivative: never differences the energy of a component that offers deriv
        if hasattr(f, "deriv2"):
            a.reset()
            b.reset()
            f.deriv2(r)
            for comp, nm in ((a, "a"), (b, "b")):
                if hasattr(comp, "deriv"):
                    badc = [t for t in comp.calls if t != r]
                    if badc:
                        v.append(("locality:deriv2_differences_energy",
                                  "%s: deriv2 evaluated the energy of a component offering deriv at %r" % (op, badc)))
                if hasattr(comp, "deriv2"):
                    badd = [t for t in comp.dcalls if t != r]
                    if badd:
                        v.append(("locality:deriv2_differences_deriv",
                                  "%s: deriv2 differenced deriv of a component offering deriv2 at %r" % (op, badd)))
    elif op == "multirange":
        if other.calls or other.dcalls:
            v.append(("locality:unselected_range_evaluated", "range starting at %r evaluated at %r" % (r + 1.0, other.calls + other.dcalls)))
        want = x.B + 0.2 * r
        if abs(d - want) > 1e-6:
            v.append(("locality:value", "multirange deriv %r expected %r" % (d, want)))
    elif op == "spline":
        # r <= detach: the start potential's derivative, end potential untouched
        if other.calls or other.dcalls:
            v.append(("locality:unselected_range_evaluated", "end potential evaluated at %r for r below detach" % (other.calls + other.dcalls,)))
        want = x.B + 0.2 * r
        if abs(d - want) > 1e-6:
            v.append(("locality:value", "spline start-region deriv %r expected %r" % (d, want)))
    return {"v": v, "cls": cls, "nt": True}


# ---- Potential.force -------------------------------------------------------

def _check_potential(case):
    pd, env = case["pd"], case["env"]
    v, cls = [], ["stratum:potential"] + (["potential:near_origin"] if case.get("origin") else [])
    ref = model.Ref(env)
    try:
        f = build_api.Builder(env).potdef(pd)
        has = hasattr(f, "deriv")
        cls.append("force:analytic" if has else "force:numeric")
        pot = ap.Potential("A", "B", f, case["h"]) if case["h"] != 1e-6 else ap.Potential("A", "B", f)
        for r in case["rs"]:
            try:
                j, tr = model.evaluate(ref, pd, r, order=3)
            except DomainError:
                continue
            if not model.same_piece(ref, pd, r, 2 * case["h"]):
                continue
            got = pot.force(r)
            d1 = j.d(1)
            if has:
                tol = _tol(d1, 1e-12 * abs(d1.v))
            else:
                hh = case["h"]
                tol = 256 * EPS * d1.e + 16 * EPS * j.c[0].e / hh + hh * hh * abs(j.d(3).v) / 12.0 + 4 * j.c[0].u / hh + 1e-300
                if math.isinf(j.d(3).u) and not math.isfinite(tol):
                    continue
            g = libroute.realnum(got)
            if g is None or not abs(g + d1.v) <= tol:
                v.append(("potential:force", "r=%r force=%r, -dE/dr=%r (tol %.3g, analytic=%s)\n%s" % (
                    r, got, -d1.v, tol, has, render.potdef_text(pd))))
                break
            if abs(pot.energy(r) - j.v) > 256 * EPS * j.c[0].e + 1e-300:
                v.append(("potential:energy", "r=%r energy=%r reference %r" % (r, pot.energy(r), j.v)))
                break
    except DomainError:
        return {"v": [], "cls": cls, "nt": False, "skip": True}
    except Exception as e:
        v.append(("potential:exception:%s@%s" % (type(e).__name__, libroute.innermost_atsim_frame(e)),
                  "%r\n%s" % (e, render.potdef_text(pd))))
    return {"v": v, "cls": cls, "nt": True}


def _check_table_slope(case):
    """the literal last clause of the statement: in a written table the force column is minus the slope of the
    energy column (central differences of the printed energies on a fine grid; tolerance from a second stencil
    and the printed precision) - no reference derivative involved"""
    import io as _io
    from vlib import parsers, pairtab
    from atsim.potentials.pair_tabulation import LAMMPS_PairTabulation, DLPoly_PairTabulation
    pd, cutoff, nr = case["pd"], case["cutoff"], case["nr"]
    cls = ["stratum:table_slope", "slope:" + case["target"]] + (["slope:int_plateau"] if case.get("int_plateau") else [])
    ref = model.Ref(case["env"])
    m = {"env": case["env"], "pair": [["A", "B", pd]], "int_returns": case.get("int_returns")}
    v = []
    try:
        pots = pairtab.api_potentials(m)
        fp = _io.StringIO()
        if case["target"] == "LAMMPS":
            LAMMPS_PairTabulation(pots, cutoff, nr).write(fp)
            blk = parsers.lammps_table(fp.getvalue())[0]
            rs = [(k + 1) * (cutoff / float(nr - 1)) for k in range(len(blk["rows"]))]
            E = [e for _, _, e, _ in blk["rows"]]
            F = [f for _, _, _, f in blk["rows"]]
            prec = lambda x: 1.0000001e-8  # noqa: E731
        else:
            n4 = (nr - 1)
            DLPoly_PairTabulation(pots, cutoff, n4).write(fp)
            t = parsers.dlpoly_table(fp.getvalue())
            rs = [(k + 1) * (cutoff / float(n4 - 4)) for k in range(n4)]
            E = t["blocks"][0]["energies"]
            F = [g / r for g, r in zip(t["blocks"][0]["forces"], rs)]
            prec = lambda x: 1.0000001e-7 * abs(x)  # noqa: E731
    except (OverflowError, ZeroDivisionError, DomainError):
        return {"v": [], "cls": cls, "nt": False, "skip": True}
    except Exception as e:
        return {"v": [("table_slope:exception:%s@%s" % (type(e).__name__, libroute.innermost_atsim_frame(e)), "%r\n%s" % (
            e, render.potdef_text(pd)))], "cls": cls, "nt": False}
    # the spacing comes from the grid definition, not from the printed separations (8 decimals: the difference
    # of two printed values is only good to ~1e-6 relative, which would dominate the comparison)
    dr = cutoff / float(nr - 1) if case["target"] == "LAMMPS" else cutoff / float((nr - 1) - 4)
    checked = 0
    for k in range(2, len(rs) - 2, 7):
        r = rs[k]
        if r < 0.6 or not model.same_piece(ref, pd, r, 2.5 * dr):
            continue
        s1 = (E[k + 1] - E[k - 1]) / (2 * dr)
        s2 = (E[k + 2] - E[k - 2]) / (4 * dr)
        noise = (prec(E[k + 1]) + prec(E[k - 1])) / (2 * dr) + prec(F[k]) * (1.0 if case["target"] == "LAMMPS" else 1.0 / r)
        tol = 2.0 * abs(s1 - s2) + 2.0 * noise + 1e-9 * abs(s1)
        if not abs(F[k] + s1) <= tol:
            v.append(("table_slope:%s" % case["target"], "row %d r=%r: force %r but minus the slope of the tabulated energy "
                      "is %r (tolerance %.3g)\n%s" % (k + 1, r, F[k], -s1, tol, render.potdef_text(pd))))
            break
        checked += 1
    return {"v": v, "cls": cls + ["checked:table_slope"] * min(checked, 50), "nt": checked > 10}


def check_case(case):
    k = case["kind"]
    if k == "table_slope":
        return _check_table_slope(case)
    if k == "expr":
        return _check_expr(case)
    if k == "locality":
        return _check_locality(case)
    return _check_potential(case)
