"""C03 -- setfl (eam/alloy): element blocks, grids, r*phi blocks and metadata are faithful.

Generated: EAM models over 1..4 elements (real and invented labels) in any
declaration order, under-specified elements (only an embedding or only a density
entry), any subset of pair potentials in either species order plus pairs naming
foreign species, [Species] overrides for any subset of the four metadata fields,
grids nr, nrho >= 2.
Routes: writeSetFL | SetFL_EAMTabulation.write | potable targets setfl and
lammps_eam_alloy | real CLI (sampled).
Oracle: token-based setfl reader; element set and uniqueness; header grid numbers;
per element (in header order) metadata = override > built-in table > defaults,
Nrho embedding values F(i*drho), Nr density values rho(i*dr); for (i, j<=i) in
header order Nr values r*phi(r) found under either declaration order, zero when
undeclared; no trailing data.
"""
import io

from hypothesis import strategies as st

from vlib import bootstrap, gen, model, libroute, eamtab, parsers, compare, rewrite
from vlib.num import DomainError, EN

bootstrap.activate()
import atsim.potentials as ap  # noqa: E402
from atsim.potentials.eam_tabulation import SetFL_EAMTabulation  # noqa: E402

ID = "C03"
LEVEL = "exploration"
RULE = ("Hypothesis builds an EAM model (1..4 elements from real and invented labels, embedding/density entries "
        "possibly missing for some elements, each unordered pair declared with probability 3/4 in a random "
        "orientation, occasional foreign-species pairs, random [Species] overrides, grids 2..24 rows) and a route. "
        "The written file is read by an independent token reader and every number compared with the reference "
        "(all rows up to 40 per function, else 40 spread rows). Overrides include 0; a quarter of the functions are near-copies of an earlier one. "
        "Non-trivial = >= 3 elements, or a reversed pair "
        "declaration, or a zero-filled pair/function, or an override that beats the built-in table; distinct = "
        "canonical JSON.")
ASSUMPTIONS = [
    "rows are taken at the float the property's own row formula gives (k*delpot; i*step; i*cutoff/(nr-1)); a row that sits EXACTLY on a range boundary is compared (the marker decides its side), a row within 64 ulp of a boundary without being on it is not (nothing can be said about which side a last-bit difference puts it on)",
    "the order of elements in the header is taken as the reference order for potable routes (API routes must "
    "keep the order of the EAMPotential list); the header's fifth number (cutoff) is not constrained",
    "built-in element data are read from the package's table as data and cross-checked against a hard-coded "
    "14-element table (Z exact, mass within 0.5 %)",
]
REQUIRED = {"route:writeSetFL": 10, "route:class": 10, "route:potable:setfl": 10, "route:potable:lammps_eam_alloy": 10,
            "elements>=3": 20, "reversed_pair": 20, "zero_filled_pair": 20, "override_beats_builtin": 10,
            "zero_filled_function": 10, "zero_override_beats_builtin": 2, "rewrite:2_writes": 2, "break_on_row": 5}
FMT = ("e", 16)


@st.composite
def _case(draw, n_min=1, n_max=4, near_copies=False):
    route = draw(st.sampled_from(["writeSetFL", "class", "potable:setfl", "potable:lammps_eam_alloy", "main:setfl"]))
    m = draw(gen.eam_model("eam", n_min, n_max, depth=1, pycallables=not route.startswith(("potable", "main")), near_copies=near_copies))
    m["route"] = route
    if near_copies:
        m["near_copies"] = True
    m["share_callables"] = draw(st.booleans())
    m["api_container"] = draw(st.sampled_from(["list", "list", "tuple", "iterator", "generator"]))
    m["int_zero"] = draw(st.integers(0, 2)) == 0      # Python callables returning the int 0 where they vanish
    if m["share_callables"] and not route.startswith(("potable", "main")) and m["embed"] and m["density"] and draw(st.booleans()):
        # the same definition as embedding function of one element and density of another
        m["density"][0][1] = m["embed"][-1][1]
    return m


@st.composite
def _node_case(draw):
    m = draw(_case(1, 3))
    if m["grid"]["nr"] < 3 or m["grid"]["nrho"] < 3:
        m["grid"]["nr"] += 3
        m["grid"]["nrho"] += 3
    return eamtab.with_node_breaks(draw, m)


@st.composite
def _rewrite(draw):
    m = draw(_case(1, 3))
    m["route"] = draw(st.sampled_from(["writeSetFL", "class"]))
    m["rewrite"] = draw(rewrite.plan(m))
    return m


def strategy(tier):
    return _case()


def strata(tier):
    return [("1-2 elements", _case(1, 2), 4), ("3-4 elements", _case(3, 4), 6), ("rewrite", _rewrite(), 2), ("break_on_row", _node_case(), 1),
            ("near_copies", _case(2, 3, True), 2)]


def budget(tier):
    if tier == "quick":
        return {"examples": 160}
    return {"examples": 700, "shards": 16}


def classes(m):
    cls = (["break_on_row"] if m.get("node_breaks") else []) + (["near_copies"] if m.get("near_copies") else [])
    els = eamtab.element_set(m)
    if len(els) >= 3:
        cls.append("elements>=3")
    order = m["elements"]
    declared = set()
    for a, b, _ in m["pair"]:
        if a in els and b in els:
            declared.add(frozenset((a, b)))
            if order.index(a) > order.index(b):
                cls.append("reversed_pair")
        else:
            cls.append("foreign_pair")
    npairs = len(els) * (len(els) + 1) // 2
    if len(declared) < npairs:
        cls.append("zero_filled_pair")
    emb = set(a for a, _ in m["embed"])
    dens = set(a for a, _ in m.get("density", [])) if "density" in m else els
    if emb != els or dens != els:
        cls.append("zero_filled_function")
    for s, p, v in m.get("species", []):
        if s in gen.ELEMENT_TABLE and p in ("atomic_number", "atomic_mass"):
            cls.append("override_beats_builtin")
            if v == 0:
                cls.append("zero_override_beats_builtin")
    return sorted(set(cls))


def _series(ref, pd, n, step, scale_r=False):
    """reference values f(i*step) (times r when scale_r) at the sampled indices"""
    out = {}
    for i in compare.sample_rows(n):
        x = i * step
        if eamtab.near_boundary(ref, pd, x):
            continue
        v = eamtab.ref_value(ref, pd, x)
        if scale_r:
            v = v * EN(x, 4 * x)
        out[i] = v
    return out


def verify_setfl(m, text, api_order, ctx, fs=False, adp=False):
    v = []
    try:
        t = parsers.setfl(text, fs=fs, adp=adp)
    except parsers.FormatError as e:
        return [("format", "%s\n%s" % (e, ctx))]
    els = eamtab.element_set(m)
    if set(t["elements"]) != els:
        return [("elements", "header names %r, model elements %r\n%s" % (t["elements"], sorted(els), ctx))]
    if api_order is not None and t["elements"] != api_order:
        v.append(("element_order", "header order %r, EAMPotential list order %r" % (t["elements"], api_order)))
    nr, dr, nrho, drho = eamtab.grids(m)
    if t["nr"] != nr or t["nrho"] != nrho:
        v.append(("header:counts", "Nrho %d Nr %d, grid has nrho %d nr %d\n%s" % (t["nrho"], t["nr"], nrho, nr, ctx)))
        return v
    if not compare.close(FMT, t["dr"], EN(dr, dr)) or not compare.close(FMT, t["drho"], EN(drho, drho)):
        v.append(("header:steps", "drho %r dr %r, grid has %r %r\n%s" % (t["drho"], t["dr"], drho, dr, ctx)))
    ref = model.Ref(m["env"])
    lk = eamtab.lookup(m)
    names = t["elements"]
    for el in names:
        blk = t["blocks"][el]
        Z, mass, a, lat = eamtab.metadata(m, el)
        if blk["Z"] != Z or not compare.close(FMT, blk["mass"], EN(mass, abs(mass))) or \
                not compare.close(FMT, blk["a"], EN(a, abs(a))) or blk["lattice"] != lat:
            v.append(("metadata", "%s: file has (%r, %r, %r, %r), expected (%r, %r, %r, %r)\n%s" % (
                el, blk["Z"], blk["mass"], blk["a"], blk["lattice"], Z, mass, a, lat, ctx)))
        for i, want in _series(ref, lk["embed"].get(el), nrho, drho).items():
            if not compare.close(FMT, blk["embed"][i], want):
                v.append(("embed", "%s F(%d*drho=%r): %r, model %r\n%s" % (el, i, i * drho, blk["embed"][i], want.v, ctx)))
                break
        if fs:
            # eam/fs consumer rule: the density at a site of element X due to a neighbour of element
                    # `el` is read from the X-th array inside the element block of `el`
            for other in names:
                pd_slot = lk["density_fs"].get((other, el))
                for i, want in _series(ref, pd_slot, nr, dr).items():
                    got = blk["density"][other][i]
                    if not compare.close(FMT, got, want):
                        v.append(("density_fs", "element block %s, array %s (density at a %s site from a %s neighbour), "
                                  "row %d: %r, declared %s->%s gives %r (declared=%s)\n%s" % (
                                      el, other, other, el, i, got, other, el, want.v, pd_slot is not None, ctx)))
                        break
        else:
            for i, want in _series(ref, lk["density"].get(el), nr, dr).items():
                if not compare.close(FMT, blk["density"][i], want):
                    v.append(("density", "%s rho(%d*dr=%r): %r, model %r\n%s" % (el, i, i * dr, blk["density"][i], want.v, ctx)))
                    break
    for key, scale in (("pairs", True),) + ((("dipole", False), ("quadrupole", False)) if adp else ()):
        role = "pair" if key == "pairs" else key
        for (a, b), vals in t[key].items():
            pd = lk[role].get(frozenset((a, b)))
            for i, want in _series(ref, pd, nr, dr, scale_r=scale).items():
                if not compare.close(FMT, vals[i], want):
                    v.append((role, "%s block %s-%s row %d (r=%r): %r, expected %s %r (declared=%s)\n%s" % (
                        role, a, b, i, i * dr, vals[i], "r*phi" if scale else "value", want.v, pd is not None, ctx)))
                    break
    return v


def _domain(m):
    ref = model.Ref(m["env"])
    nr, dr, nrho, drho = eamtab.grids(m)
    for a, pd in m["embed"]:
        _series(ref, pd, nrho, drho)
    for a, pd in m["density"]:
        _series(ref, pd, nr, dr)
    for a, b, pd in m["pair"]:
        _series(ref, pd, nr, dr)


def _check_rewrite(m, cls):
    rw, route = m["rewrite"], m["route"]
    one = rw["same_object"] and route == "class"
    cls = cls + ["rewrite:%d_writes" % len(rw["ks"]), "rewrite:" + ("one_object" if one else "same_callables"), "rewrite:" + rw["kind"]]
    w = rewrite.Wrapper(m, rw)
    pairs, eams = eamtab.api_objects(m, wrap=w)
    api_order = [e.species for e in eams]
    g = m["grid"]
    nr, dr, nrho, drho = eamtab.grids(m)
    tab = None
    v = []
    for n, k in enumerate(rw["ks"]):
        w.set(k)
        mm = rewrite.scaled_model(m, rw, k)
        ctx = "%s\n%s" % (rewrite.describe(m, rw, n, k), eamtab.potable_text(mm, "setfl"))
        try:
            _domain(mm)
        except (DomainError, OverflowError, ZeroDivisionError):
            return {"v": [], "cls": cls, "nt": False, "skip": True}
        fp = io.StringIO()
        try:
            if route == "writeSetFL":
                ap.writeSetFL(nrho, drho, nr, dr, eams, pairs, out=fp)
            else:
                if tab is None or not one:
                    tab = SetFL_EAMTabulation(pairs, eams, g["cutoff"], g["nr"], g["cutoff_rho"], g["nrho"])
                tab.write(fp)
        except Exception as e:
            return {"v": [("rewrite:exception:%s@%s" % (type(e).__name__, libroute.innermost_atsim_frame(e)), "%r\n%s" % (e, ctx))],
                    "cls": cls, "nt": False}
        try:
            vv = verify_setfl(mm, fp.getvalue(), api_order, ctx)
        except DomainError:
            return {"v": [], "cls": cls, "nt": False, "skip": True}
        v += [(("rewrite:" + bk) if n else bk, d) for bk, d in vv]
        if v:
            break
    return {"v": v, "cls": cls, "nt": True}


def check_case(m):
    route = m["route"]
    cls = ["route:" + route] + classes(m)
    if m.get("int_returns") and not str(route).startswith(("potable", "main", "cli")):
        cls.append("callables_return_ints")
    if m.get("rewrite"):
        return _check_rewrite(m, cls)
    nt = bool(set(cls) & {"elements>=3", "reversed_pair", "zero_filled_pair", "zero_filled_function",
                          "override_beats_builtin"})
    target = route.split(":")[1] if ":" in route else "setfl"
    ctx = eamtab.potable_text(m, target)
    # domain: every reference value finite
    try:
        ref = model.Ref(m["env"])
        nr, dr, nrho, drho = eamtab.grids(m)
        for a, pd in m["embed"]:
            _series(ref, pd, nrho, drho)
        for a, pd in m["density"]:
            _series(ref, pd, nr, dr)
        for a, b, pd in m["pair"]:
            _series(ref, pd, nr, dr)
    except (DomainError, OverflowError, ZeroDivisionError):
        return {"v": [], "cls": cls, "nt": False, "skip": True}
    api_order = None
    try:
        if route in ("cli", "main:setfl"):
            res = (libroute.run_potable_main if route != "cli" else libroute.run_potable)([], ctx)
            if res["rc"] != 0 or res["out"] is None:
                return {"v": [("cli:failed", "rc=%r %s\n%s" % (res["rc"], res["stderr"][-500:], ctx))], "cls": cls, "nt": False}
            out = res["out"].decode()
        elif route.startswith("potable"):
            out = libroute.write_text(libroute.read_text(ctx))
        else:
            pairs, eams = eamtab.api_objects(m, share=bool(m.get("share_callables")), int_zero=bool(m.get("int_zero")),
                                             container=m.get("api_container"))
            cls.append("pair_potentials_as:" + (m.get("api_container") or "list"))
            if m.get("share_callables"):
                cls.append("shared_callables")
            if m.get("int_zero"):
                cls.append("int_typed_zeros")
            api_order = [e.species for e in eams]
            nr, dr, nrho, drho = eamtab.grids(m)
            fp = io.StringIO()
            if route == "writeSetFL":
                ap.writeSetFL(nrho, drho, nr, dr, eams, pairs, out=fp)
            else:
                g = m["grid"]
                SetFL_EAMTabulation(pairs, eams, g["cutoff"], g["nr"], g["cutoff_rho"], g["nrho"]).write(fp)
            out = fp.getvalue()
    except Exception as e:
        return {"v": [("write:exception:%s@%s" % (type(e).__name__, libroute.innermost_atsim_frame(e)), "%r\n%s" % (e, ctx))],
                "cls": cls, "nt": False}
    try:
        v = verify_setfl(m, out, api_order, ctx)
    except DomainError:
        return {"v": [], "cls": cls, "nt": False, "skip": True}
    return {"v": v, "cls": cls, "nt": nt}


def extra(tier, seed, record):
    import hypothesis
    from hypothesis import given, settings, HealthCheck, Phase
    n = 4 if tier == "quick" else 50
    done = {"n": 0}

    @hypothesis.seed(seed * 7919 + 19)
    @settings(max_examples=n, database=None, deadline=None, suppress_health_check=list(HealthCheck), phases=[Phase.generate])
    @given(_case(2, 4))
    def run(m):
        m = dict(m, route="cli")
        res = check_case(m)
        res["cls"] = list(res.get("cls", [])) + ["route:cli"]
        if not res.get("skip"):
            done["n"] += 1
        record(m, res)
    run()
    return {"cli_runs": done["n"]}
