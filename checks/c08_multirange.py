"""C08 -- multi-range potentials select exactly the range that contains r.

Generated: 1..5 ranges (marker, start, sub-potential) with starts drawn from a
small pool (repeats, -inf), at most one range per (marker, start); pairwise
distinguishable quadratic sub-potentials; every listing order (all permutations,
<= 120); separations at, just below/above, between, below and above the starts.
Routes: Multi_Range_Potential_Form classes / create_Multi_Range_Potential_Form
(incl. re-assigning .range_defns), potable multi-range strings (also nested in a
modifier) and definitions without a leading marker.
Oracle: reference selection rule (vlib.model.select_range, DESIGN 3.4); value,
deriv, deriv2 all from one admissible range; zero below the first range;
identical floats under every permutation.
"""
import io
import itertools
import math

from hypothesis import strategies as st

from vlib import bootstrap, render, model

bootstrap.activate()
from atsim.potentials import Multi_Range_Defn, create_Multi_Range_Potential_Form  # noqa: E402
from atsim.potentials import _multi_range_potential_form as mrpf  # noqa: E402
from atsim.potentials import potentialforms as pf  # noqa: E402
from atsim.potentials.config import Configuration  # noqa: E402

ID = "C08"
LEVEL = "exploration"
RULE = ("Hypothesis builds 1..5 ranges (marker in {'>','>='}, start from {-inf,-1,0,0.5,1,2,2.5,3,7.25}, "
        "at most one range per (marker,start)) with distinct quadratic sub-potentials; each case is "
        "evaluated under every listing permutation (<=120) at separations at/next to/between/outside the "
        "starts through the API classes, the range_defns setter and potable text. Non-trivial = some probe "
        "separation equals a start that carries a range, or a start is shared by both markers, or the "
        "listing is unsorted; distinct = distinct canonical JSON of the case.")
ASSUMPTIONS = [
    "at r > s with both a '>' and a '>=' range sharing the greatest eligible start either sub-potential is "
    "accepted (the statement and tests/config/test_config_potential_form_builder.py disagree there); "
    "at r == s only the inclusive range is accepted",
    "two ranges with the same (marker, start) have no order-independent meaning and are not generated",
]
REQUIRED = {"repeated_marker_start": 10, "route:api": 20, "route:text": 10, "probe:at_start": 20, "shared_start_both_markers": 5}

STARTS = [float("-inf"), -1.0, 0.0, 0.5, 1.0, 2.0, 2.5, 3.0, 7.25]
KINDS = ["d2", "d2", "d1", "d0"]  # sub-potential offers deriv+deriv2 / deriv only / nothing


@st.composite
def _case(draw):
    n = draw(st.integers(1, 5))
    dup = draw(st.integers(0, 5)) == 0
    keys = draw(st.lists(st.tuples(st.sampled_from([">", ">="]), st.sampled_from(STARTS)),
                         min_size=n, max_size=n, unique=not dup))
    rgs = []
    for i, (m, s) in enumerate(keys):
        a = (i + 1) * 1000.0 + draw(st.integers(-50, 50))
        b = (i + 1) * 10.0 + draw(st.integers(-2, 2)) * 0.5
        c = (i + 1) * 0.002
        rgs.append({"m": m, "s": s, "c": [a, b, c], "kind": draw(st.sampled_from(KINDS))})
    extra_r = draw(st.lists(st.floats(-3, 20, allow_nan=False), min_size=0, max_size=3))
    wrap = draw(st.sampled_from(["plain", "plain", "sum", "trans"]))
    return {"ranges": rgs, "extra_r": extra_r, "wrap": wrap}


def strategy(tier):
    return _case()


def budget(tier):
    if tier == "quick":
        return {"examples": 500}
    return {"examples": 6000, "shards": 16}


def _probe_points(rgs, extra):
    starts = sorted(set(r["s"] for r in rgs if math.isfinite(r["s"])))
    pts = set(extra)
    for s in starts:
        pts.update([s, math.nextafter(s, math.inf), math.nextafter(s, -math.inf), s + 1e-9, s - 1e-9])
    for a, b in zip(starts, starts[1:]):
        pts.add((a + b) / 2)
    if starts:
        pts.update([starts[0] - 1.0, starts[-1] + 1.0, starts[-1] + 11.5])
    pts.update([-5.0, 0.0, 5e-324, 19.0])
    return sorted(pts)


def _poly(c):
    a, b, cc = c
    return (lambda r: a + b * r + cc * r * r, lambda r: b + 2 * cc * r, lambda r: 2 * cc)


def _callable(rg):
    if rg["kind"] == "d2":
        return pf.polynomial(*rg["c"])
    f, d1, _ = _poly(rg["c"])

    def fn(r):
        return f(r)
    if rg["kind"] == "d1":
        fn.deriv = d1
    return fn


def _expected(rgs, r):
    i, alts = model.select_range([{"m": g["m"], "s": g["s"]} for g in rgs], r)
    return i, alts


def _compare_with_rule(rgs, pts, res):
    """None when every probe agrees with an admissible range, else a description"""
    for r, (val, d1, d2) in zip(pts, res):
        i, alts = _expected(rgs, r)
        if i is None:
            if val != 0.0 or (d1 not in (None, 0.0)) or (d2 not in (None, 0.0)):
                return "r=%r -> %r %r %r, want 0 (below every range)" % (r, val, d1, d2)
            continue
        ok = False
        for j in alts:
            f, g1, g2 = _poly(rgs[j]["c"])
            good = _close(val, f(r), 1e4)
            if d1 is not None:
                good = good and abs(d1 - g1(r)) <= (1e-9 if rgs[j]["kind"] != "d0" else 1e-4)
            if d2 is not None and rgs[j]["kind"] == "d2":
                good = good and abs(d2 - g2(r)) <= 1e-12
            elif d2 is not None and rgs[j]["kind"] == "d1":
                good = good and abs(d2 - g2(r)) <= 1e-4
            ok = ok or good
        if not ok:
            return "r=%r got (%r,%r,%r); no admissible range among %r gives that; ranges=%r" % (
                r, val, d1, d2, list(alts), [(g["m"], g["s"]) for g in rgs])
    return None


def _close(x, y, scale):
    return abs(x - y) <= 1e-11 * scale + 1e-300


def check_case(case):
    rgs = case["ranges"]
    v = []
    cls = ["route:api", "n=%d" % len(rgs)]
    pts = _probe_points(rgs, case["extra_r"])
    keyset = set((g["m"], g["s"]) for g in rgs)
    shared = any(((">", g["s"]) in keyset and (">=", g["s"]) in keyset) for g in rgs)
    if shared:
        cls.append("shared_start_both_markers")
    startset = set(g["s"] for g in rgs)
    if any(p in startset for p in pts):
        cls.append("probe:at_start")
    n = len(rgs)
    perms = list(itertools.permutations(range(n)))
    has_dups = len(keyset) < len(rgs)
    if has_dups:
        cls.append("repeated_marker_start")
    all_d2 = all(g["kind"] == "d2" for g in rgs)
    any_d2 = any(g["kind"] == "d2" for g in rgs)
    any_d1 = any(g["kind"] in ("d1", "d2") for g in rgs)
    cls.append("class:" + ("deriv2" if any_d2 else "deriv" if any_d1 else "plain"))
    base = None
    for pi, perm in enumerate(perms):
        try:
            defs = [Multi_Range_Defn(rgs[i]["m"], rgs[i]["s"], _callable(rgs[i])) for i in perm]
            if pi % 3 == 2:
                # exercise the range_defns setter: build with another order, then assign
                obj = create_Multi_Range_Potential_Form(*reversed(defs))
                # ... from a list, a tuple or a one-shot iterable (generator, reversed(), iter()): any iterable of
                # range definitions is a set of ranges
                how = (pi // 3) % 5
                obj.range_defns = [defs, tuple(defs), (d for d in defs), reversed(list(reversed(defs))), iter(defs)][how]
                tag = "setter:" + ["list", "tuple", "generator", "reversed", "iter"][how]
                if tag not in cls:
                    cls.append(tag)
            else:
                obj = create_Multi_Range_Potential_Form(*defs)
            want_cls = (mrpf.Multi_Range_Potential_Form_Deriv2 if any_d2 else
                        mrpf.Multi_Range_Potential_Form_Deriv if any_d1 else mrpf.Multi_Range_Potential_Form)
            if type(obj) is not want_cls:
                v.append(("api:class", "got %s want %s" % (type(obj).__name__, want_cls.__name__)))
            def probe(r):
                return (obj(r), obj.deriv(r) if hasattr(obj, "deriv") else None,
                        obj.deriv2(r) if hasattr(obj, "deriv2") else None)
            res = [probe(r) for r in pts]
            # the answer at r may not depend on what the same object was asked before: repeat the probes
            # in descending and in an interleaved order
            if pi < 2:
                n_ = len(pts)
                for order_name, order in (("descending", range(n_ - 1, -1, -1)),
                                          ("interleaved", [i for k in range((n_ + 1) // 2) for i in (n_ - 1 - k, k)])):
                    for i in order:
                        again = probe(pts[i])
                        if again != res[i]:
                            v.append(("api:history_dependent", "evaluating the same object in %s order: r=%r gives %r, "
                                      "in ascending order it gave %r; ranges=%r" % (order_name, pts[i], again, res[i],
                                                                                   [(g["m"], g["s"]) for g in rgs])))
                            break
                    if v and v[-1][0] == "api:history_dependent":
                        break
        except Exception as e:
            v.append(("api:exception:%s" % type(e).__name__, "perm %r: %r" % (perm, e)))
            break
        if base is None:
            base = res
            # compare with the reference on the first permutation
            for r, (val, d1, d2) in zip(pts, res):
                i, alts = _expected(rgs, r)
                if i is None:
                    if val != 0.0 or (d1 not in (None, 0.0)) or (d2 not in (None, 0.0)):
                        v.append(("api:below_first", "r=%r -> %r %r %r, want 0" % (r, val, d1, d2)))
                    continue
                ok = False
                for j in alts:
                    f, g1, g2 = _poly(rgs[j]["c"])
                    good = _close(val, f(r), 1e4)
                    if d1 is not None:
                        # numerical fallbacks (kind d0 / d1) are exact to ~1e-6 on quadratics
                        tol1 = 1e-11 * 100 if rgs[j]["kind"] != "d0" else 1e-4
                        good = good and abs(d1 - g1(r)) <= tol1
                    if d2 is not None:
                        if rgs[j]["kind"] == "d2":
                            good = good and abs(d2 - g2(r)) <= 1e-12
                        elif rgs[j]["kind"] == "d1":
                            good = good and abs(d2 - g2(r)) <= 1e-4
                        # d0: a numerical derivative of a numerical derivative -- not constrained
                    ok = ok or good
                if not ok:
                    f, g1, g2 = _poly(rgs[i]["c"])
                    v.append(("api:selection",
                              "r=%r got (%r,%r,%r); range %d %s%r expected (%r,%r,%r); ranges=%r" % (
                                  r, val, d1, d2, i, rgs[i]["m"], rgs[i]["s"], f(r), g1(r), g2(r),
                                  [(g["m"], g["s"]) for g in rgs])))
                    break
        elif has_dups:
            # repeated (marker, start): which of the twins answers is not order-independent; every order is
            # compared with the selection rule instead (any twin is admissible)
            bad = _compare_with_rule(rgs, pts, res)
            if bad:
                v.append(("api:selection", "order %r: %s" % (perm, bad)))
                break
        elif res != base:
            k = [a != b for a, b in zip(res, base)].index(True)
            v.append(("api:permutation", "order %r differs from %r at r=%r: %r vs %r" % (
                perm, perms[0], pts[k], res[k], base[k])))
            break
    if perms[0] != tuple(sorted(range(n), key=lambda i: (rgs[i]["s"], rgs[i]["m"] == ">"))):
        cls.append("unsorted_listing")
    # ---- potable text route ------------------------------------------------
    if all(math.isfinite(g["s"]) for g in rgs):
        cls.append("route:text")
        cls.append("wrap:" + case["wrap"])
        v.extend(_text_route(case, pts))
    nt = shared or ("probe:at_start" in cls) or ("unsorted_listing" in cls)
    return {"v": v, "cls": cls, "nt": nt}


def _text_route(case, pts):
    rgs = case["ranges"]
    v = []
    pd = {"ranges": [{"m": g["m"], "s": g["s"], "body": {"k": "form", "name": "polynomial", "p": g["c"]}}
                     for g in rgs]}
    wrap = case["wrap"]
    shift = 0.0
    if wrap == "sum":
        top = {"ranges": [{"m": ">", "s": -100, "body": {"k": "mod", "m": "sum", "args": [
            pd, {"ranges": [{"m": ">", "s": -100, "body": {"k": "form", "name": "zero", "p": []}}]}]}}]}
    elif wrap == "trans":
        shift = 0.25
        top = {"ranges": [{"m": ">", "s": -100, "body": {"k": "mod", "m": "trans", "args": [pd], "x": shift}}]}
    else:
        top = pd
    m = {"tabulation": {"target": "LAMMPS", "nr": 10, "cutoff": 5.0}, "pair": [("A", "B", top)]}
    txt = render.model_text(m)
    try:
        tab = Configuration().read(io.StringIO(txt))
        f = tab.potentials[0].potentialFunction
        for r in pts:
            if r < -50:
                continue
            rr = r + shift
            val = f(r)
            d1 = f.deriv(r)
            i, alts = _expected(rgs, rr)
            if i is None:
                if val != 0.0 or d1 != 0.0:
                    v.append(("text:below_first", "r=%r -> %r (want 0)\n%s" % (r, val, txt)))
                    break
                continue
            ok = False
            for j in alts:
                fj, gj, _ = _poly(rgs[j]["c"])
                ok = ok or (_close(val, fj(rr), 1e4) and abs(d1 - gj(rr)) <= 1e-9)
            if not ok:
                fi, gi, _ = _poly(rgs[i]["c"])
                v.append(("text:selection", "r=%r got %r/%r expected %r/%r\n%s" % (r, val, d1, fi(rr), gi(rr), txt)))
                break
    except Exception as e:
        v.append(("text:exception:%s" % type(e).__name__, "%r\n%s" % (e, txt)))
    # no leading marker => acts for r > 0 only
    g = rgs[0]
    pd0 = {"ranges": [{"m": None, "s": None, "body": {"k": "form", "name": "polynomial", "p": g["c"]}}]}
    for sec, key in (("pair", ("A", "B")),):
        m0 = {"tabulation": {"target": "LAMMPS", "nr": 10, "cutoff": 5.0}, "pair": [("A", "B", pd0)]}
        txt0 = render.model_text(m0)
        try:
            f0 = Configuration().read(io.StringIO(txt0)).potentials[0].potentialFunction
            fj, gj, _ = _poly(g["c"])
            for r, want in ((-1.0, 0.0), (0.0, 0.0), (5e-324, fj(5e-324)), (1.0, fj(1.0))):
                got = f0(r)
                if not _close(got, want, 1e4):
                    v.append(("text:no_marker", "r=%r got %r want %r\n%s" % (r, got, want, txt0)))
                    break
        except Exception as e:
            v.append(("text:exception:%s" % type(e).__name__, "%r\n%s" % (e, txt0)))
    return v
