"""C01 -- LAMMPS pair table: rows, header and force column are faithful to the model.

Generated: 1..4 pair potentials (built-in, custom, modified, multi-range, splined,
table forms; Python callables offering 0/1/2 analytic derivative levels), species
labels, cutoff in (0.5, 20], row count >= 3.
Routes: LAMMPS_PairTabulation.write | writePotentials('LAMMPS') | potable text
(Configuration.read(...).write) | the real potable command line (sampled).
Oracle: independent parser; one block per potential in order, titled by its two
labels; N == nr-1, lo == dr, hi == cutoff, rows 1..N at k*dr; energy == reference
value, force == -reference derivative (printed precision + modelled rounding /
numerical-fallback error).
"""
import io
import math

from hypothesis import strategies as st

from vlib import bootstrap, gen, model, libroute, pairtab, parsers, compare
from vlib.num import DomainError

bootstrap.activate()
import atsim.potentials as ap  # noqa: E402
from atsim.potentials.pair_tabulation import LAMMPS_PairTabulation  # noqa: E402

ID = "C01"
LEVEL = "exploration"
RULE = ("Hypothesis builds a pair model (1..4 potentials over 1..4 species, definitions of depth <= 2 with custom "
        "and table forms, either species order), a cutoff (round and non-round, 0.5..20) and a row count (3..60, "
        "thorough to 5000) and a route (API classes, writePotentials, potable text; CLI sampled separately). The "
        "written file is parsed independently and every row's index and separation, and the energy/force of all "
        "rows (<= 40 rows) or of 40 spread rows are compared with reference jets. "
        "Strata add: [Tabulation] items left out (documented defaults), and one tabulation object written 2..3 times "
        "while a stateful energy callable is re-parametrised in between (each file must follow the current function). "
        "A quarter of the definitions of a model are near-copies of an earlier one (gen.vary). Non-trivial = some block has "
        "curvature with max|F| > 1e-3 and nr >= 5; distinct = distinct canonical JSON.")
ASSUMPTIONS = [
    "block titles are accepted in either species order (code writes A-B as declared, the docstring promises sorted)",
    "rows lying within a few ulp of a range boundary are not compared (the library's accumulated grid position "
    "and k*dr may fall on different sides); their count is reported",
    "force rows whose numerical-fallback stencil (h=1e-6) crosses a piecewise boundary are not compared",
]
REQUIRED = {"special:break_at_cutoff": 4, "special:rows_over_1000": 2, "defaults:cutoff_dr_given": 3, "special:int_plateau": 4, "special:root_on_grid": 8, "special:decay_tail": 8, "special:growth": 4, "single_row_table": 2, "repeated_pair_in_list": 5, "route:api_class": 15, "route:writePotentials": 15, "route:potable": 25,
            "blocks>=2": 20, "force:numeric_fallback": 10, "reversed_labels": 5, "rewrite:2_writes": 2, "defaults:nr_given": 1, "defaults:cutoff_given": 1, "defaults:none_given": 1}
FMT = ("f", 8)


@st.composite
def _case(draw, nr_max, min_pots=1, max_pots=4, defaults=False, route=None, repeated=False):
    route = "potable" if defaults else (route or draw(st.sampled_from(["api_class", "writePotentials", "potable", "potable", "main"])))
    m = draw(gen.pair_model(max_pots, 2, pycallables=(route not in ("potable", "main")), min_pots=min_pots))
    cutoff, nr = draw(gen.grid_rc(nr_max, 2))        # nr = 2: the one-row table "N 1 R cutoff cutoff"
    if route in ("api_class", "writePotentials") and len(m["pair"]) >= 2 and (repeated or draw(st.integers(0, 3)) == 0):
        # the list is the caller's: it may name one pair of species twice (also the other way round); every entry
        # still gets its own block, in list order
        i, j = draw(st.permutations(list(range(len(m["pair"])))))[:2]
        a, b = m["pair"][i][0], m["pair"][i][1]
        m["pair"][j][0], m["pair"][j][1] = (b, a) if draw(st.booleans()) else (a, b)
        m["repeated_pair"] = True
    if route == "potable":
        # [Tabulation] items may be left out: documented defaults cutoff 10.0, nr 1001
        given = defaults if defaults else "both"
        if given in ("nr", "none"):
            cutoff = 10.0
        if given in ("cutoff", "none"):
            nr = 1001
        if given == "cutoff_dr":
            # the table's extent given as cutoff and step: "cutoff gives the maximum separation to be tabulated" whether or
            # not it is a whole multiple of dr (the step then adapts: dr = cutoff/(nr-1))
            step = draw(st.sampled_from([0.01, 0.05, 0.125, 0.2]))
            k = draw(st.integers(5, 60))
            frac = draw(st.sampled_from([0, 0, 0.3, 0.5, 0.7]))
            cutoff = round((k + frac) * step, 6)
            nr = k + 1
            m["dr_given"] = repr(step)
            m["dr_fraction"] = frac
        m["given"] = given
    m.update({"cutoff": cutoff, "nr": nr, "route": route,
              "container": draw(st.sampled_from(["list", "list", "tuple", "iterator", "generator"]))})
    return m


@st.composite
def _break_at_cutoff(draw):
    """a range that starts exactly at the cutoff ('>=cutoff as.zero', '>cutoff ...'): the last row, which is the
    cutoff, is on the side the marker says"""
    route = draw(st.sampled_from(["api_class", "writePotentials", "potable", "main"]))
    cutoff = draw(st.sampled_from([1.0, 10.0, 6.5, 12.0, 8.0, 2.5]))
    # row counts for which the running formula of the writer overshoots the cutoff by an ulp are among these
    nr = draw(st.sampled_from([38, 56, 8, 26, 109, 110, 214, 16, 24, 28, 11, 101]))
    a, b = draw(st.sampled_from([("A", "B"), ("O", "U"), ("Xx", "Xx")]))
    pd = draw(gen.node_break_potdef([cutoff]))
    return {"env": {"custom": [], "table": []}, "pair": [[a, b, pd]], "species": sorted(set([a, b])), "cutoff": cutoff, "nr": nr,
            "route": route, "container": "list", "special": "break_at_cutoff"}


@st.composite
def _rows_over_1000(draw):
    """blocks of more than a thousand rows (the default potable table has exactly 1000): what is assembled in batches,
    buffered or flushed by size shows only beyond"""
    route = draw(st.sampled_from(["api_class", "writePotentials", "potable", "main"]))
    m = draw(gen.pair_model(2, 0, max_tables=0, pycallables=False, min_pots=1, max_customs=0))
    m.update({"cutoff": draw(st.sampled_from([6.5, 10.0, 12.0])), "nr": draw(st.sampled_from([1002, 1500, 2001, 2500, 3002])), "route": route,
              "container": "list", "special": "rows_over_1000"})
    return m


@st.composite
def _special(draw, kind):
    m = draw(gen.special_pair_model(kind, dlpoly=False))
    m["route"] = draw(st.sampled_from(["api_class", "writePotentials", "potable"]))
    if kind == "int_plateau":
        m["int_returns"] = draw(st.booleans())
    return m


@st.composite
def _rewrite(draw):
    """one tabulation object written several times while a stateful energy callable is re-parametrised in between
    (a fitting loop): every file must be the table of the energy function as it is when that file is written"""
    m = draw(gen.pair_model(3, 2, pycallables=True))
    cutoff, nr = draw(gen.grid_rc(40))
    ks = draw(st.lists(st.sampled_from([1.0, 2.0, -1.0, 0.5, 3.0, 0.1, -2.5]), min_size=2, max_size=3).filter(
        lambda l: all(a != b for a, b in zip(l, l[1:]))))
    m.update({"cutoff": cutoff, "nr": nr, "route": "api_class", "container": "list",
              "rewrite": {"which": draw(st.integers(0, len(m["pair"]) - 1)), "ks": ks}})
    return m


def strategy(tier):
    return _case(60 if tier == "quick" else 400)


def strata(tier):
    if tier == "quick":
        return [("one", _case(60, 1, 1), 4), ("several", _case(60, 2, 4), 5), ("large", _case(400), 1),
                ("root_on_grid", _special("root_on_grid"), 1), ("decay_tail", _special("decay_tail"), 1), ("growth", _special("growth"), 0.5), ("rewrite", _rewrite(), 1),
                ("int_plateau", _special("int_plateau"), 0.6), ("single_row", _case(2, 1, 3), 0.3)] + [
            ("repeated_pair:" + r, _case(60, 2, 4, route=r, repeated=True), 0.6) for r in ("api_class", "writePotentials")] + [
            ("route:writePotentials", _case(60, 1, 4, route="writePotentials"), 1)] + [
            ("defaults:" + g, _case(60, 1, 2, g), 0.4) for g in ("nr", "cutoff", "none", "cutoff_dr")] + [
            ("rows_over_1000", _rows_over_1000(), 0.5), ("break_at_cutoff", _break_at_cutoff(), 1)]
    return [("break_at_cutoff", _break_at_cutoff(), 1)] + [("defaults:" + g, _case(60, 1, 2, g), 0.4) for g in ("nr", "cutoff", "none", "cutoff_dr")] + [("rows_over_1000", _rows_over_1000(), 0.5)] + [("rewrite", _rewrite(), 1), ("one", _case(60, 1, 1), 3), ("several", _case(60, 2, 4), 3), ("medium", _case(400), 3),
            ("large", _case(5000, 1, 2), 1), ("root_on_grid", _special("root_on_grid"), 1),
            ("decay_tail", _special("decay_tail"), 1), ("growth", _special("growth"), 0.5), ("int_plateau", _special("int_plateau"), 0.6), ("single_row", _case(2, 1, 3), 0.3)] + [
        ("repeated_pair:" + r, _case(60, 2, 4, route=r, repeated=True), 0.6) for r in ("api_class", "writePotentials")] + [
        ("route:writePotentials", _case(60, 1, 4, route="writePotentials"), 1)]


def validate(case):
    """cases the shrinker may propose stay inside the statement: a positive cutoff and at least two rows"""
    try:
        g = case.get("given", "both")
        if (g in ("nr", "none") and case["cutoff"] != 10.0) or (g in ("cutoff", "none") and case["nr"] != 1001):
            return False       # what is left out of [Tabulation] takes the documented default
        if g == "cutoff_dr" and case["cutoff"] != round((case["nr"] - 1 + case["dr_fraction"]) * float(case["dr_given"]), 6):
            return False
        return case["cutoff"] > 0 and case["nr"] >= 2
    except Exception:
        return False


def budget(tier):
    if tier == "quick":
        return {"examples": 220}
    return {"examples": 700, "shards": 16}


class CliFailed(Exception):
    pass


def _grid(case):
    g = case.get("given", "both")
    if g == "cutoff_dr":
        return {"cutoff": case["cutoff"], "dr": case["dr_given"]}
    return dict((k, case[k]) for k in ("cutoff", "nr") if g in ("both", k))


def produce(case):
    """returns text written by the chosen route"""
    route = case["route"]
    if route == "potable":
        txt = pairtab.potable_text(case, "LAMMPS", _grid(case))
        return libroute.write_text(libroute.read_text(txt)), txt
    if route in ("cli", "main"):
        txt = pairtab.potable_text(case, "LAMMPS", _grid(case))
        res = (libroute.run_potable_main if route == "main" else libroute.run_potable)([], txt)
        if res["rc"] != 0 or res["out"] is None:
            raise CliFailed("rc=%r stderr=%s" % (res["rc"], res["stderr"][-600:]))
        return res["out"].decode(), txt
    pots = pairtab.api_potentials(case, case.get("container", "list") if route == "writePotentials" else
                                  ("tuple" if case.get("container") == "tuple" else "list"))
    fp = io.StringIO()
    if route == "api_class":
        LAMMPS_PairTabulation(pots, case["cutoff"], case["nr"]).write(fp)
    else:
        ap.writePotentials("LAMMPS", pots, case["cutoff"], case["nr"], fp)
    return fp.getvalue(), None


def verify_text(case, out, route_kind, ctx=""):
    """compare LAMMPS table text with the model; returns (violations, stats)"""
    v = []
    stats = {"rows": 0, "rows_compared": 0, "boundary_rows_skipped": 0, "force_rows_skipped": 0, "nontrivial": False}
    cutoff, nr = case["cutoff"], case["nr"]
    pots = case["pair"]
    try:
        blocks = parsers.lammps_table(out)
    except parsers.FormatError as e:
        return [("format", "%s\n%s" % (e, ctx))], stats
    if len(blocks) != len(pots):
        return [("block_count", "%d blocks for %d potentials\n%s" % (len(blocks), len(pots), ctx))], stats
    N = nr - 1
    dr = cutoff / float(nr - 1)
    ref = model.Ref(case["env"])
    for (a, b, pd), blk in zip(pots, blocks):
        pd = pairtab.for_route(pd, route_kind)
        if blk["title"] not in ("%s-%s" % (a, b), "%s-%s" % (b, a)):
            v.append(("title", "block titled %r for potential %s-%s\n%s" % (blk["title"], a, b, ctx)))
            continue
        if blk["N"] != N or len(blk["rows"]) != N:
            v.append(("row_count", "header N=%d, %d rows, expected nr-1=%d\n%s" % (blk["N"], len(blk["rows"]), N, ctx)))
            continue
        if abs(blk["lo"] - dr) > 1.0000001e-8 + 1e-12 * dr or abs(blk["hi"] - cutoff) > 1.0000001e-8 + 1e-12 * cutoff:
            v.append(("header_range", "R %r %r, expected lo=dr=%r hi=cutoff=%r\n%s" % (blk["lo"], blk["hi"], dr, cutoff, ctx)))
        bad = False
        for k, (idx, r, E, Fv) in enumerate(blk["rows"], 1):
            stats["rows"] += 1
            if idx != k:
                v.append(("row_index", "row %d carries index %d\n%s" % (k, idx, ctx)))
                bad = True
                break
            if abs(r - k * dr) > 1.0000001e-8 + 1e-12 * cutoff:
                v.append(("row_separation", "row %d at r=%r, expected k*dr=%r\n%s" % (k, r, k * dr, ctx)))
                bad = True
                break
        if bad:
            continue
        numeric = pairtab.has_numeric(pd, route_kind)
        maxF = 0.0
        curved = False
        for i in compare.sample_rows(N):
            k = i + 1
            r = k * dr
            if k == N:
                r = cutoff              # the last row is the cutoff itself ("running ... to hi=cutoff")
            idx, rp, E, Fv = blk["rows"][i]
            if not model.same_piece(ref, pd, r, 64 * 2.3e-16 * max(1.0, r)):
                if not (k == N and model.on_boundary(ref, pd, r)):
                    stats["boundary_rows_skipped"] += 1
                    continue
                # a range that starts exactly at the cutoff: the marker decides whether the last row belongs to it
                stats["last_row_on_boundary"] = True
            try:
                j, tr = pairtab.ref_row(ref, pd, r, order=2)
            except DomainError:
                raise
            if any(t[0] == "ambiguous" for t in tr):
                stats["boundary_rows_skipped"] += 1
                continue
            stats["rows_compared"] += 1
            if not compare.close(FMT, E, j.c[0]):
                v.append(("energy", "%s row %d r=%r: energy %r, model energy %r (tol %.3g)\n%s" % (
                    blk["title"], k, r, E, j.v, compare.tol(FMT, E, j.c[0]), ctx)))
                break
            d1 = j.d(1)
            if numeric and not model.same_piece(ref, pd, r, 1e-6):
                stats["force_rows_skipped"] += 1
                continue
            if math.isinf(d1.u):
                stats["force_rows_skipped"] += 1
                continue
            want = -d1
            if not compare.close(FMT, Fv, want):
                v.append(("force", "%s row %d r=%r: force %r, -dE/dr of the same energy %r (tol %.3g, numeric=%s)\n%s" % (
                    blk["title"], k, r, Fv, want.v, compare.tol(FMT, Fv, want), numeric, ctx)))
                break
            maxF = max(maxF, abs(want.v))
            if abs(j.d(2).v) > 1e-9 and not math.isinf(j.d(2).u) or numeric:
                curved = True
        if maxF > 1e-3 and curved and nr >= 5:
            stats["nontrivial"] = True
    return v, stats


class _Scaled(object):
    """stateful energy callable: k * f(r), k re-assignable between writes"""

    def __init__(self, f):
        self.f, self.k = f, 1.0

    def __call__(self, r):
        return self.k * self.f(r)


class _ScaledD(_Scaled):
    def deriv(self, r):
        return self.k * self.f.deriv(r)


def _scaled_case(case, which, k):
    c = dict(case)
    pair = [list(x) for x in case["pair"]]
    const = {"ranges": [{"m": None, "s": 0.0, "body": {"k": "form", "name": "constant", "p": [k]}}]}
    pair[which][2] = {"ranges": [{"m": None, "s": 0.0, "body": {"k": "mod", "m": "product", "args": [const, pair[which][2]]}}]}
    c["pair"] = pair
    return c


def check_rewrite(case, cls):
    rw = case["rewrite"]
    cls = cls + ["rewrite:%d_writes" % len(rw["ks"])]
    pots = pairtab.api_potentials(case)
    a, b, pd = case["pair"][rw["which"]]
    f = pots[rw["which"]].potentialFunction
    holder = (_ScaledD if hasattr(f, "deriv") else _Scaled)(f)
    pots[rw["which"]] = ap.Potential(a, b, holder)
    tab = LAMMPS_PairTabulation(pots, case["cutoff"], case["nr"])
    v, nt = [], False
    for n, k in enumerate(rw["ks"]):
        holder.k = k
        cc = _scaled_case(case, rw["which"], k)
        ctx = "write number %d of one tabulation object, %s-%s energy callable re-parametrised to k=%r before it\n%s" % (
            n + 1, a, b, k, pairtab.potable_text(cc, "LAMMPS", {"cutoff": case["cutoff"], "nr": case["nr"]}))
        fp = io.StringIO()
        try:
            tab.write(fp)
        except Exception as e:
            return {"v": [("rewrite:exception:%s@%s" % (type(e).__name__, libroute.innermost_atsim_frame(e)), "%r\n%s" % (e, ctx))],
                    "cls": cls, "nt": False}
        try:
            vv, stats = verify_text(cc, fp.getvalue(), "api", ctx)
        except DomainError:
            return {"v": [], "cls": cls, "nt": False, "skip": True}
        v += [("rewrite:" + bk if n else bk, d) for bk, d in vv]
        nt = nt or (n > 0 and stats["nontrivial"])
        if v:
            break
    return {"v": v, "cls": cls, "nt": nt}


def check_case(case):
    cls = ["route:" + case["route"], "blocks=%d" % len(case["pair"])]
    if case["route"] == "writePotentials":
        cls.append("container:" + case.get("container", "list"))
    if case.get("special"):
        cls.append("special:" + case["special"])
    if case.get("int_returns") and not case["route"].startswith(("potable", "main", "cli")):
        cls.append("callables_return_ints")
    if len(case["pair"]) >= 2:
        cls.append("blocks>=2")
    if case["nr"] > 60:
        cls.append("nr>60")
    if case["nr"] == 2:
        cls.append("single_row_table")
    if case.get("repeated_pair"):
        cls.append("repeated_pair_in_list")
    if case.get("given", "both") != "both":
        cls.append("defaults:" + case["given"] + "_given")
    rk = "api" if case["route"] not in ("potable", "cli", "main") else "potable"
    if any(pairtab.has_numeric(pd, rk) for _, _, pd in case["pair"]):
        cls.append("force:numeric_fallback")
    sp = case["species"]
    if any(sp.index(a) > sp.index(b) for a, b, _ in case["pair"]):
        cls.append("reversed_labels")
    # reference must be finite on the whole grid, else the case is outside the domain
    ref = model.Ref(case["env"])
    dr = case["cutoff"] / float(case["nr"] - 1)
    try:
        for a, b, pd in case["pair"]:
            for i in compare.sample_rows(case["nr"] - 1):
                pairtab.ref_row(ref, pairtab.for_route(pd, rk), (i + 1) * dr, order=0)
    except (DomainError, OverflowError, ZeroDivisionError):
        return {"v": [], "cls": cls, "nt": False, "skip": True}
    if case.get("rewrite"):
        return check_rewrite(case, cls)
    try:
        out, txt = produce(case)
    except Exception as e:
        return {"v": [("write:exception:%s@%s" % (type(e).__name__, libroute.innermost_atsim_frame(e)),
                       "%r\n%s" % (e, pairtab.potable_text(case, "LAMMPS", {"cutoff": case["cutoff"], "nr": case["nr"]})))],
                "cls": cls, "nt": False}
    ctx = txt or pairtab.potable_text(case, "LAMMPS", {"cutoff": case["cutoff"], "nr": case["nr"]})
    if case.get("given") == "cutoff_dr" and case.get("dr_fraction"):
        # cutoff is no whole multiple of dr: the row count may be rounded either way, the end point is the cutoff
        try:
            n_file = parsers.lammps_table(out)[0]["N"]
            if n_file + 1 in (case["nr"], case["nr"] + 1):
                case = dict(case, nr=n_file + 1)
        except (parsers.FormatError, IndexError):
            pass
    try:
        v, stats = verify_text(case, out, rk, ctx)
    except DomainError:
        return {"v": [], "cls": cls, "nt": False, "skip": True}
    return {"v": v, "cls": cls, "nt": stats["nontrivial"]}


def extra(tier, seed, record):
    """the real command line on a sample of generated models"""
    import hypothesis
    from hypothesis import given, settings, HealthCheck, Phase
    n = 4 if tier == "quick" else 60
    done = {"n": 0}

    @hypothesis.seed(seed * 7919 + 13)
    @settings(max_examples=n, database=None, deadline=None, suppress_health_check=list(HealthCheck),
              phases=[Phase.generate])
    @given(_case(40))
    def run(case):
        if case.get("repeated_pair"):
            return              # a potable file may define each pair once (C20): such lists exist on the API routes only
        case = dict(case, route="cli")
        case["pair"] = [[a, b, pairtab.strip_has(pd)] for a, b, pd in case["pair"]]
        res = check_case(case)
        if not res.get("skip"):
            done["n"] += 1
        record(case, res)
    run()
    return {"cli_runs": done["n"]}
