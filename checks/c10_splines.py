"""C10 -- splined potentials keep their end potentials and join them with C2 continuity.

Generated: start/end potentials from the twice-differentiable built-in forms,
detach in [0.3, 2], attach - detach in [0.3, 2.5], r_min in the middle 70 %.
Routes: SplinePotential, Buck4_SplinePotential, Custom_SplinePotential(Exp_Spline |
Buck4_Spline), the spline() modifier in potable text, as.buck4 text and
potentialforms.buck4.
Oracle: exact equality with the start potential for r <= detach and with the end
potential for r >= attach; value / first / second derivative of the interior
function at detach and attach (and across r_min, with zero slope there) equal the end
potentials' (tolerance from the row scale of the constraint, 1e-9 relative);
interior has the advertised shape with the published coefficients; all
constructions give the same function; an independent solve agrees; as.buck4 equals
its documented spline(...) expansion.
"""
import math

from hypothesis import strategies as st

from vlib import bootstrap, gen, model, render, libroute
from vlib.num import Jet, DomainError, EPS

bootstrap.activate()
from atsim.potentials import potentialforms as pf  # noqa: E402
from atsim.potentials import spline as spl  # noqa: E402

ID = "C10"
LEVEL = "exploration"
RULE = ("Hypothesis draws start and end potentials from the built-in forms with analytic second derivatives "
        "(domain parameters), detach, attach (, r_min) and the spline type; every construction route is built and "
        "probed at detach, attach, r_min, their floating point neighbours, interior and exterior separations. "
        "Non-trivial = both end potentials non-constant with distinct values at the joins and probes in every "
        "region and on every join (always true by construction of the probe set); distinct = canonical JSON.")
ASSUMPTIONS = [
    "end potentials are restricted to forms with analytic first and second derivatives (the joins are then "
    "free of numerical-differentiation noise)",
    "join tolerances are 1e-9 x the term magnitudes of the constraint row (row-wise backward error of the linear "
    "solve), not scaled by the condition number; the independent re-solve comparison is scaled by it",
]
REQUIRED = {"type:exp_spline": 30, "type:buck4_spline": 30, "route:text": 50, "route:as.buck4": 15,
            "integer_breakpoints": 15, "custom_end_potential": 10, "companion_entry": 60, "detach_at_origin": 8}
TOL = 1e-9


@st.composite
def _case(draw, force_origin=False):
    kind = draw(st.sampled_from(["exp_spline", "buck4_spline"] if force_origin else ["exp_spline", "buck4_spline", "as.buck4"]))
    if kind == "as.buck4":
        p = list(draw(gen.form_params("buck4")))
        return {"kind": kind, "p": p, "extra_r": draw(st.lists(gen.fl(0.05, 6.0), min_size=2, max_size=4)),
                "companion": draw(st.sampled_from([0, 1, 1, 2]))}
    a = draw(gen.form_leaf(gen.SMOOTH))
    b = draw(gen.form_leaf(gen.SMOOTH))
    ints = (not force_origin) and draw(st.integers(0, 3)) == 0
    if ints:
        detach, rmin_i, attach = draw(st.sampled_from(gen.INT_BREAKS))     # typed as whole numbers (Python ints)
    else:
        detach = round(draw(gen.fl(0.3, 2.0)), 3)
        attach = round(detach + draw(gen.fl(0.3, 2.5)), 3)
    origin = False
    if force_origin or (not ints and draw(st.integers(0, 7)) == 0):
        # detachment point exactly at the origin, start potential regular there and defined from below 0
        origin = True
        a = draw(gen.form_leaf(["bornmayer", "morse", "polynomial", "constant"]))
        detach = draw(st.sampled_from([0, 0.0]))
        attach = round(draw(gen.fl(0.3, 2.5)), 3)
    c = {"kind": kind, "a": a, "b": b, "detach": detach, "attach": attach, "origin": origin,
         "extra_r": draw(st.lists(gen.fl(0.05, 6.0), min_size=2, max_size=4)),
         "m1": draw(st.sampled_from([">", ">="])), "m2": draw(st.sampled_from([">", ">="])),
         "companion": draw(st.sampled_from([0, 1, 1, 2]))}
    if kind == "buck4_spline":
        c["rmin"] = rmin_i if ints else round(detach + (attach - detach) * draw(gen.fl(0.15, 0.85)), 4)
    return c


def _v(n):
    return {"o": "var", "n": n}


# custom (formula) potentials: no analytic derivatives, the library differentiates them numerically
CUSTOM_ENDS = [
    {"name": "invsq", "params": ["r", "a"], "expr": {"o": "/", "a": _v("a"), "b": {"o": "^", "a": _v("r"), "p": 2}}},
    {"name": "expdec", "params": ["r", "a", "w"], "expr": {"o": "*", "a": _v("a"), "b": {"o": "call", "f": "exp", "args": [
        {"o": "neg", "a": {"o": "/", "a": _v("r"), "b": _v("w")}}]}}},
    {"name": "disp6", "params": ["r", "c"], "expr": {"o": "neg", "a": {"o": "/", "a": _v("c"), "b": {"o": "^", "a": _v("r"), "p": 6}}}},
]


@st.composite
def _custom_end_case(draw):
    """spline() in a potable file whose start or end potential (or both) is a [Potential-Form] formula"""
    c = draw(_case().filter(lambda c_: c_["kind"] != "as.buck4" and not c_.get("origin")))
    for side in draw(st.sampled_from([["b"], ["a"], ["a", "b"]])):
        f = draw(st.sampled_from(CUSTOM_ENDS))
        c[side] = {"k": "custom", "name": f["name"], "p": [draw(gen.fl(0.5, 40.0)) for _ in f["params"][1:]]}
    c["custom_end"] = True
    return c


def strategy(tier):
    return _case()


def strata(tier):
    # the detachment point at the origin has a stratum of its own: left to chance (1 case in 16) some seeds never drew it
    return [("built-in end potentials", _case(), 9), ("formula end potentials", _custom_end_case(), 1),
            ("detach_at_origin", _case(force_origin=True), 0.7)]


def budget(tier):
    if tier == "quick":
        return {"examples": 350}
    return {"examples": 3000, "shards": 16}


def validate(case):
    try:
        if case["kind"] == "as.buck4":
            A, rho, C, rd, rm, ra = case["p"]
            return 0 < rd < rm < ra and rho > 0 and ra - rd >= 0.25
        from vlib import forms as F
        for nd in (case["a"], case["b"]):
            if nd.get("k") == "custom":
                continue
            ar = F.ARITY[nd["name"]]
            if (ar is not None and len(nd["p"]) != ar) or (ar is None and not nd["p"]):
                return False
        ok = (0.25 <= case["detach"] or (case.get("origin") and case["detach"] == 0)) and case["attach"] - case["detach"] >= 0.25
        if case["kind"] == "buck4_spline":
            f = (case["rmin"] - case["detach"]) / (case["attach"] - case["detach"])
            ok = ok and 0.1 <= f <= 0.9
        return ok
    except Exception:
        return False


def _node(case):
    if case["kind"] == "as.buck4":
        A, rho, C, rd, rm, ra = case["p"]
        return {"k": "mod", "m": "spline", "args": [{"ranges": [
            {"m": None, "s": None, "body": {"k": "form", "name": "bornmayer", "p": [A, rho]}},
            {"m": ">", "s": rd, "body": {"k": "splinekw", "name": "buck4_spline", "p": [rm]}},
            {"m": ">", "s": ra, "body": {"k": "form", "name": "buck", "p": [0, 1, C]}}]}]}
    kw = {"k": "splinekw", "name": case["kind"], "p": ([case["rmin"]] if case["kind"] == "buck4_spline" else [])}
    first = {"m": ">", "s": -1.0, "body": case["a"]} if case.get("origin") else {"m": None, "s": None, "body": case["a"]}
    return {"k": "mod", "m": "spline", "args": [{"ranges": [
        first,
        {"m": case["m1"], "s": case["detach"], "body": kw},
        {"m": case["m2"], "s": case["attach"], "body": case["b"]}]}]}


def _polyterms(co, x, d, span=None):
    """(value, scale) of the d-th derivative of sum co[k] x^k; scale = sum of |terms|, plus
    (with span) the value-row scale expressed in units of the d-th derivative: the row-wise
    backward error of the linear solve is relative to the whole coefficient vector.  At (or within a thousandth of
    the interval of) x = 0 all but one term of every row vanish and say nothing about the size of the coefficient
    vector: the scale is then taken at the other end of the interval."""
    def at(xx):
        v = 0.0
        s = 0.0
        s0 = 0.0
        for k, c in enumerate(co):
            s0 += abs(c * xx ** k)
            if k < d:
                continue
            f = 1.0
            for i in range(d):
                f *= (k - i)
            t = f * c * xx ** (k - d)
            v += t
            s += abs(t)
        return v, s, s0
    v, s, s0 = at(x)
    if span is not None and abs(x) <= 1e-3 * span:
        _, s, s0 = at(span)
        if d > 0:
            s += s0 / span ** d
        return v, s
    if span is not None and d > 0:
        s += s0 / min(span, abs(x)) ** d
    return v, s


def _check_custom_end(case):
    """potable route only; the joins are checked against the true derivatives of the end potentials with the
    admissible error of the documented numerical fallback (first derivative ~1e-9, second ~1e-3 relative)"""
    v, cls = [], ["custom_end_potential"]
    node = _node(case)
    rgs = node["args"][0]["ranges"]
    detach, attach = rgs[1]["s"], rgs[2]["s"]
    kwname = rgs[1]["body"]["name"]
    cls.append("type:" + kwname)
    env = {"custom": CUSTOM_ENDS, "table": []}
    ref = model.Ref(env)
    pd = {"ranges": [{"m": None, "s": None, "body": node}]}
    a_pd = {"ranges": [{"m": None, "s": None, "body": rgs[0]["body"]}]}
    b_pd = {"ranges": [{"m": None, "s": None, "body": rgs[2]["body"]}]}
    try:
        ja, _ = model.evaluate(ref, a_pd, detach, order=2)
        jb, _ = model.evaluate(ref, b_pd, attach, order=2)
        parts = ref.spline_parts(node)
    except Exception:
        return {"v": [], "cls": cls, "nt": False, "skip": True}
    if not all(math.isfinite(c.v) and abs(c.v) < 1e12 for c in ja.c + jb.c) or not parts[5] < 1e11:
        return {"v": [], "cls": cls, "nt": False, "skip": True}
    co_ref = parts[3]
    for x in (detach, attach):
        pieces = [co_ref] if parts[0] == "exp" else [co_ref[:6], co_ref[6:]]
        for cs in pieces:
            if sum(abs(c * x ** k) for k, c in enumerate(cs)) > 1e6 * (1.0 if parts[0] == "exp" else max(abs(ja.v), abs(jb.v), 1e-300)):
                return {"v": [], "cls": cls + ["ill_conditioned"], "nt": False, "skip": True}
    m = {"tabulation": {"target": "LAMMPS", "nr": 5, "cutoff": 2.0}, "env": env,
         "pair": [("A", "B", pd), ("A", "A", a_pd), ("B", "B", b_pd)]}
    text = render.model_text(m)
    try:
        fns = libroute.functions(libroute.read_text(text))
        f, start, end = fns["pair:A-B"], fns["pair:A-A"], fns["pair:B-B"]
        cls.append("route:text")
    except Exception as e:
        return {"v": [("text:build:exception:%s@%s" % (type(e).__name__, libroute.innermost_atsim_frame(e)), "%r\n%s" % (e, text))],
                "cls": cls, "nt": False}
    nx = math.nextafter
    span = attach - detach
    try:
        for r in [detach * 0.5, detach * 0.9, detach, attach, attach * 1.2, attach + 2.0]:
            want = start(r) if r <= detach else end(r)
            if f(r) != want:
                v.append(("custom_end:outside", "r=%r: %r, %s potential gives %r\n%s" % (r, f(r), "start" if r <= detach else "end", want, text)))
                break
        for x, inside, jet, nm in ((detach, nx(detach, 9), ja, "detach"), (attach, nx(attach, 0), jb, "attach")):
            cs = co_ref if parts[0] == "exp" else (co_ref[:6] if nm == "detach" else co_ref[6:])
            for d, fn in enumerate((f, f.deriv, f.deriv2)):
                got = fn(inside)
                want = jet.d(d)
                _, sc = _polyterms(cs, x, d, span)
                if parts[0] == "exp":
                    sc = (abs(jet.v) + abs(parts[4])) * max(sc, 1.0) + abs(want.v)
                tol = 1e-7 * (sc + abs(want.v)) + 4.0 * want.u + 256 * EPS * want.e + 1e-300
                # one ulp inside the join the interior function has moved by less than that
                if not abs(got - want.v) <= tol:
                    v.append(("custom_end:join:%s:d%d" % (nm, d), "%s at %s=%r (formula end potential, numerical derivatives): "
                              "spline d%d just inside = %r, end potential has %r (tolerance %.3g)\n%s" % (
                                  kwname, nm, x, d, got, want.v, tol, text)))
    except Exception as e:
        v.append(("probe:exception:%s@%s" % (type(e).__name__, libroute.innermost_atsim_frame(e)), "%r\n%s" % (e, text)))
    return {"v": v, "cls": cls, "nt": abs(ja.d(1).v) > 0 and abs(jb.d(1).v) > 0}


def check_case(case):
    if case.get("custom_end"):
        return _check_custom_end(case)
    v, cls = [], []
    node = _node(case)
    rgs = node["args"][0]["ranges"]
    detach, attach = rgs[1]["s"], rgs[2]["s"]
    kwname = rgs[1]["body"]["name"]
    rmin = rgs[1]["body"]["p"][0] if rgs[1]["body"]["p"] else None
    cls.append("type:" + kwname)
    if case.get("origin"):
        cls.append("detach_at_origin")
    if all(isinstance(x, int) for x in (detach, attach)) and (rmin is None or isinstance(rmin, int)):
        cls.append("integer_breakpoints")
    ref = model.Ref()
    pd = {"ranges": [{"m": None, "s": None, "body": node}]}
    a_node, b_node = rgs[0]["body"], rgs[2]["body"]
    try:
        ja = ref.simple(a_node, Jet.var(detach, 2), model.Trace())
        jb = ref.simple(b_node, Jet.var(attach, 2), model.Trace())
        parts = ref.spline_parts(node)
    except (DomainError, ValueError, ZeroDivisionError, OverflowError):
        return {"v": [], "cls": cls, "nt": False, "skip": True}
    except Exception as e:   # numpy LinAlgError etc. in the *reference* solve: outside the conditioned range
        return {"v": [], "cls": cls, "nt": False, "skip": True}
    if not all(math.isfinite(c.v) and abs(c.v) < 1e12 for c in ja.c + jb.c):
        return {"v": [], "cls": cls, "nt": False, "skip": True}
    cond = parts[5]
    if not cond < 1e13:
        return {"v": [], "cls": cls, "nt": False, "skip": True}
    # "in the range where both are well-conditioned": the spline polynomial must not be a difference of
    # astronomically larger terms (steep end potentials on a short interval give coefficients ~1e19 whose
    # cancellation error exceeds the function itself).  Decided on the reference's own solve.
    co_ref = parts[3]
    for x in (detach, attach):
        if parts[0] == "exp":
            s0 = sum(abs(c * x ** k) for k, c in enumerate(co_ref))
            if s0 > 1e8:
                return {"v": [], "cls": cls + ["ill_conditioned"], "nt": False, "skip": True}
        else:
            for cs in (co_ref[:6], co_ref[6:]):
                s0 = sum(abs(c * x ** k) for k, c in enumerate(cs))
                if s0 > 1e8 * max(abs(ja.v), abs(jb.v), 1e-300):
                    return {"v": [], "cls": cls + ["ill_conditioned"], "nt": False, "skip": True}
    # ---- build every route ---------------------------------------------------
    start = getattr(pf, a_node["name"])(*a_node["p"])
    end = getattr(pf, b_node["name"])(*b_node["p"])
    routes = {}
    text = render.potdef_text(pd)
    try:
        if kwname == "exp_spline":
            routes["SplinePotential"] = spl.SplinePotential(start, end, detach, attach)
            routes["Custom(Exp_Spline)"] = spl.Custom_SplinePotential(
                spl.Exp_Spline(spl.Spline_Point(start, detach), spl.Spline_Point(end, attach)))
        else:
            routes["Buck4_SplinePotential"] = spl.Buck4_SplinePotential(start, end, detach, attach, rmin)
            routes["Custom(Buck4_Spline)"] = spl.Custom_SplinePotential(
                spl.Buck4_Spline(spl.Spline_Point(start, detach), spl.Spline_Point(end, attach), rmin))
        if case["kind"] == "as.buck4":
            routes["potentialforms.buck4"] = pf.buck4(*case["p"])
            cls.append("route:as.buck4")
    except Exception as e:
        return {"v": [("api:build:exception:%s@%s" % (type(e).__name__, libroute.innermost_atsim_frame(e)),
                       "%r\n%s" % (e, text))], "cls": cls, "nt": False}
    txt_models = {"spline()": pd}
    if case["kind"] == "as.buck4":
        txt_models["as.buck4"] = {"ranges": [{"m": None, "s": None, "body": {"k": "form", "name": "buck4", "p": case["p"]}}]}
    import copy
    comp_where = case.get("companion", 0)
    for nm, tpd in txt_models.items():
        pairs = [("A", "B", tpd)]
        if comp_where:
            # a companion entry of the same section: the same definition with other numbers (first parameter of the
            # start potential x 1.5, last parameter of the end potential x 0.5); each entry is its own function
            comp = copy.deepcopy(tpd)
            body = comp["ranges"][0]["body"]
            if body["k"] == "form":
                body["p"][0] = body["p"][0] * 1.5
                body["p"][2] = body["p"][2] * 0.5
            else:
                ends = body["args"][0]["ranges"]
                if ends[0]["body"]["p"]:
                    ends[0]["body"]["p"][0] = ends[0]["body"]["p"][0] * 1.5
                if ends[2]["body"]["p"]:
                    ends[2]["body"]["p"][-1] = ends[2]["body"]["p"][-1] * 0.5
            pairs = [("A", "A", comp)] + pairs if comp_where == 1 else pairs + [("A", "A", comp)]
            cls.append("companion_entry")
        m = {"tabulation": {"target": "LAMMPS", "nr": 5, "cutoff": 2.0}, "pair": pairs}
        t = render.model_text(m)
        try:
            routes["text:" + nm] = libroute.functions(libroute.read_text(t))["pair:A-B"]
            cls.append("route:text")
        except Exception as e:
            v.append(("text:build:exception:%s@%s" % (type(e).__name__, libroute.innermost_atsim_frame(e)), "%r\n%s" % (e, t)))
    # ---- probes --------------------------------------------------------------
    nx = math.nextafter
    span = attach - detach
    pts = [detach, nx(detach, 0), nx(detach, 9), attach, nx(attach, 0), nx(attach, 9),
           detach * 0.5, detach * 0.9, attach * 1.2, attach + 2.0,
           detach + 0.01 * span, detach + 0.25 * span, detach + 0.5 * span, detach + 0.77 * span, attach - 0.01 * span]
    if rmin is not None:
        pts.extend([rmin, nx(rmin, 0), nx(rmin, 9)])
    pts.extend(case["extra_r"])
    pts = sorted(set(p for p in pts if p > 0))
    first = list(routes)[0]
    obj = routes[first]
    # the reference itself must be finite over the splined region ("well-conditioned" range)
    try:
        for r in pts:
            j, _ = model.evaluate(ref, pd, r, order=2)
            if not all(math.isfinite(c.v) and abs(c.v) < 1e100 for c in j.c):
                raise DomainError("huge")
    except (DomainError, OverflowError):
        return {"v": v, "cls": cls, "nt": False, "skip": True}
    try:
        # (a) equality with the end potentials outside the splined region -- exact floats
        for r in pts:
            for nm, f in routes.items():
                got = f(r)
                if r <= detach:
                    want = start(r)
                    if got != want:
                        v.append(("outside:start_region", "%s at r=%r (<= detach %r): %r != start potential %r\n%s" % (
                            nm, r, detach, got, want, text)))
                elif r >= attach:
                    want = end(r)
                    if got != want:
                        v.append(("outside:end_region", "%s at r=%r (>= attach %r): %r != end potential %r\n%s" % (
                            nm, r, attach, got, want, text)))
            if v:
                break
        # (e) all constructions give the same function (value and derivatives)
        for r in pts:
            vals = dict((nm, (f(r), f.deriv(r), f.deriv2(r))) for nm, f in routes.items())
            base = vals[first]
            for nm, t in vals.items():
                for k in range(3):
                    if not abs(t[k] - base[k]) <= 1e-11 * (abs(base[k]) + 1e-300) + 1e-300:
                        v.append(("routes_disagree", "r=%r: %s gives %r, %s gives %r\n%s" % (r, first, base, nm, t, text)))
                        break
            if v:
                break
        # (b,c,d) interior function: published coefficients, shape, joins
        inter = obj.interpolationFunction
        co = list(obj.splineCoefficients)
        if kwname == "exp_spline":
            if len(co) != 7:
                v.append(("shape:coefficients", "exp spline publishes %d coefficients" % len(co)))
            B, C = co[:6], co[6]

            def shape(r, d):
                P, S0 = _polyterms(B, r, 0)
                P1, S1 = _polyterms(B, r, 1, span)
                P2, S2 = _polyterms(B, r, 2, span)
                E = math.exp(P)
                vals = (E + C, P1 * E, (P2 + P1 * P1) * E)
                tols = (E * S0 + abs(C) + abs(E), E * (S1 + abs(P1) * S0), E * (S2 + 2 * abs(P1) * S1 + abs(P2 + P1 * P1) * S0))
                return vals[d], tols[d]
        else:
            if len(co) != 10:
                v.append(("shape:coefficients", "buck4 spline publishes %d coefficients" % len(co)))

            def shape(r, d, side=None):
                cs = co[:6] if (r < rmin if side is None else side == 5) else co[6:]
                return _polyterms(cs, r, d, span)
        # shape: the interior callable evaluates the advertised formula with the published coefficients
        for r in [p for p in pts if detach < p < attach]:
            for d, fn in enumerate((inter, inter.deriv, inter.deriv2)):
                want, sc = shape(r, d)
                got = fn(r)
                if not abs(got - want) <= 1e-11 * sc + 1e-300:
                    v.append(("shape:%s" % kwname, "interior d%d at r=%r: %r, advertised form with published "
                              "coefficients gives %r\n%s" % (d, r, got, want, text)))
                    break
                # and the splined potential itself uses that interior function there
                gotf = (obj, obj.deriv, obj.deriv2)[d](r)
                if gotf != got:
                    v.append(("inside:not_interior", "r=%r d%d: potential %r, interior function %r\n%s" % (r, d, gotf, got, text)))
                    break
        # joins: value, first and second derivative agree with the end potentials
        for x, jet, nm in ((detach, ja, "detach"), (attach, jb, "attach")):
            for d in range(3):
                if kwname == "exp_spline":
                    got, sc = shape(x, d)
                else:
                    got, sc = shape(x, d, side=5 if nm == "detach" else 3)
                want = jet.d(d).v
                if not abs(got - want) <= TOL * (sc + abs(want)) + 256 * EPS * jet.d(d).e + 1e-300:
                    v.append(("join:%s:d%d" % (nm, d), "%s spline at %s=%r: interior d%d = %r, end potential has %r "
                              "(row scale %.3g)\n%s" % (kwname, nm, x, d, got, want, sc, text)))
        if kwname == "buck4_spline":
            for d in range(3):
                l, sl = shape(rmin, d, side=5)
                rr, sr = shape(rmin, d, side=3)
                if not abs(l - rr) <= TOL * (sl + sr) + 1e-300:
                    v.append(("join:r_min:d%d" % d, "fifth/third order pieces differ at r_min=%r in d%d: %r vs %r\n%s" % (
                        rmin, d, l, rr, text)))
            s5, sc5 = shape(rmin, 1, side=5)
            if not abs(s5) <= TOL * sc5 + 1e-300:
                v.append(("join:r_min:slope", "slope at r_min=%r is %r (row scale %.3g)\n%s" % (rmin, s5, sc5, text)))
            # which piece is used on either side of r_min
            for r in (nx(rmin, 0), rmin):
                want, sc = shape(r, 0, side=5 if r < rmin else 3)
                if abs(inter(r) - want) > 1e-11 * sc + 1e-300:
                    v.append(("inside:piece_selection", "r=%r (r_min=%r): %r vs piece value %r" % (r, rmin, inter(r), want)))
        # (f) independent solve
        for r in [p for p in pts if detach < p < attach]:
            j, _ = model.evaluate(ref, pd, r)
            got = obj(r)
            if not abs(got - j.v) <= 256 * EPS * j.c[0].e + 1e-9 * abs(j.v) + 1e-300:
                v.append(("independent_solve", "r=%r: %r vs independently solved spline %r (cond %.3g)\n%s" % (
                    r, got, j.v, cond, text)))
                break
    except Exception as e:
        v.append(("probe:exception:%s@%s" % (type(e).__name__, libroute.innermost_atsim_frame(e)), "%r\n%s" % (e, text)))
    nt = abs(ja.d(1).v) > 0 and abs(jb.d(1).v) > 0 and ja.v != jb.v
    return {"v": v, "cls": cls, "nt": nt}
