"""C13 -- species filtering equals deleting the unwanted interactions from the file.

Generated: pair, EAM, Finnis-Sinclair and ADP models over 1..4 species for every
tabulation target; include / exclude sets (empty, partial, full, with unknown
labels); sequences of several filtered views created from one parsed file and
read in a generated order.
Routes: FilteredConfigParser(include=/exclude=) | potable's own
_make_config_parser(...) | the real CLI (--include-species / --exclude-species).
Oracle: the hand-edited file (every [Pair], [EAM-Embed], [EAM-Density] entry that
mentions an unwanted species deleted, everything else untouched and in order)
tabulated normally: identical parsed lists (pair, eam_embed, eam_density(_fs))
and identical output, or both refused as configuration errors; every view keeps
answering as when it was created.
"""
import io

from hypothesis import strategies as st

from vlib import bootstrap, gen, libroute, anymodel

bootstrap.activate()
from atsim.potentials.config import ConfigParser, FilteredConfigParser  # noqa: E402
from atsim.potentials.config._common import ConfigurationException  # noqa: E402
from atsim.potentials.tools.potable import _make_config_parser  # noqa: E402

ID = "C13"
LEVEL = "exploration"
RULE = ("Hypothesis builds a whole model for a random target, a filter (mode include/exclude, species set drawn "
        "from the model's species plus unknown labels: empty, partial, full) and 1..3 further filters used as "
        "(unknown labels include re-spellings of real ones in another letter case; lists of unknown labels only) "
        "competing views of the same parsed file together with a read order. Non-trivial = the filter removes at "
        "least one entry and keeps at least one; distinct = canonical JSON. The CLI is sampled.")
ASSUMPTIONS = [
    "an empty species list on the command line is indistinguishable from omitting the option (argparse); the empty "
    "include set is exercised through FilteredConfigParser(include=[]) only and FilteredConfigParser(exclude=[]) "
    "(identical to include=[] by signature) is not generated",
    "[EAM-ADP-Dipole]/[EAM-ADP-Quadrupole] entries are not 'pair, embedding and density entries' and stay in the "
    "hand-edited file",
]
REQUIRED = {"eam:species_with_density_entry_only:named_by_filter": 4, "hyphenated_label:named_by_filter": 2, "fs:species_in_density_keys_only": 3, "mode:include": 40, "mode:exclude": 40, "kind:pair": 20, "kind:eam": 15, "kind:fs": 15, "kind:adp": 5,
            "removes_and_keeps": 50, "views>=2": 40, "views_tabulated": 25, "unknown_label": 15, "empty_include": 5,
            "route:main": 25, "only_unknown_labels:include:command_line_glue": 2, "only_unknown_labels:exclude:command_line_glue": 2}


@st.composite
def _filter(draw, species, shape=None, mode=None):
    mode = mode or draw(st.sampled_from(["include", "exclude"]))
    shape = shape or draw(st.sampled_from(["partial", "partial", "partial", "partial", "full", "empty", "unknown", "only_unknown"]))
    species = list(species)
    if shape == "partial" or shape == "unknown":
        n = draw(st.integers(1, max(1, len(species) - 1)))
        s = list(draw(st.permutations(species)))[:n]
        if shape == "unknown":
            # labels nobody uses, among them re-spellings of real ones in another letter case (labels are case-sensitive)
            variants = [x for sp in species for x in (sp.lower(), sp.upper(), sp.swapcase()) if x not in species]
            s += draw(st.lists(st.sampled_from(["Zq", "Tq", "Nope"] + sorted(set(variants))), min_size=1, max_size=2, unique=True))
            s = list(draw(st.permutations(s)))
    elif shape == "only_unknown":
        # nothing but labels the file does not use: include keeps nothing, exclude deletes nothing
        variants = [x for sp in species for x in (sp.lower(), sp.upper(), sp.swapcase()) if x not in species]
        s = draw(st.lists(st.sampled_from(["Zq", "Tq", "Nope"] + sorted(set(variants))), min_size=1, max_size=2, unique=True))
    elif shape == "full":
        s = list(draw(st.permutations(species)))
    else:
        s = [] if mode == "include" else [draw(st.sampled_from(["Zq", "Nope"]))]
    return {"mode": mode, "species": s}


def _hyphenate(m, old, new):
    """rename element `old` to the hyphenated label `new` (an ion or a phase: 'O2-', 'Zr-hcp').  Such a label is a
    legal key of [EAM-Embed] / [EAM-Density] and a legal side of an 'A->B' key; it cannot stand in an 'A-B' key, so
    the species takes part through its embedding and density functions only"""
    m["elements"] = [new if e == old else e for e in m["elements"]]
    m["embed"] = [[new if a == old else a, pd] for a, pd in m["embed"]]
    if "density" in m:
        m["density"] = [[new if a == old else a, pd] for a, pd in m["density"]]
    else:
        m["density_fs"] = [[new if a == old else a, new if b == old else b, pd] for a, b, pd in m["density_fs"]]
    for kind in ("pair", "dipole", "quadrupole"):
        if kind in m:
            m[kind] = [e for e in m[kind] if old not in (e[0], e[1])]
    sp = [[new if a == old else a, prop, v] for a, prop, v in m.get("species", [])]
    have = set(prop for a, prop, v in sp if a == new)
    if "atomic_number" not in have:
        sp.append([new, "atomic_number", 8])
    if "atomic_mass" not in have:
        sp.append([new, "atomic_mass", 15.999])
    m["species"] = sp
    m["hyphenated"] = new
    return m


@st.composite
def _case(draw, targets=None, shape=None, mode=None, density_only=False, hyphen=False):
    m = draw(gen.any_model(targets, 2, 4, depth=0))
    if hyphen:
        _hyphenate(m, draw(st.sampled_from(m["elements"])), draw(st.sampled_from(["O2-", "Zr-hcp", "Fe3-x"])))
    sp = m["species"] if m["kind"] == "pair" else m["elements"]
    if density_only and "density_fs" not in m:
        # a standard EAM model in which one species has an [EAM-Density] entry ONLY (no embedding function, no pair
        # interaction: both are zero-filled), and the filter names that species
        with_embed = [a for a, _ in m["embed"]]
        x = draw(st.sampled_from([e for e in m["elements"] if e != with_embed[0]] or m["elements"][1:]))
        m["embed"] = [e for e in m["embed"] if e[0] != x]
        m["pair"] = [e for e in m["pair"] if x not in (e[0], e[1])]
        if not any(e[0] == x for e in m["density"]):
            m["density"].append([x, {"ranges": [{"m": None, "s": None, "body": {"k": "form", "name": "polynomial", "p": [0, 0.5]}}]}])
        m["density_only_species"] = x
    elif density_only:
        # a Finnis-Sinclair model in which one species is mentioned by 'A->B' density keys ONLY (no embedding
        # function, no pair interaction: both are zero-filled): its density entries are entries like any other
        with_embed = [a for a, _ in m["embed"]]
        x = draw(st.sampled_from([e for e in m["elements"] if e != with_embed[0]] or m["elements"][1:]))
        m["embed"] = [e for e in m["embed"] if e[0] != x]
        m["pair"] = [e for e in m["pair"] if x not in (e[0], e[1])]
        if not any(x in (e[0], e[1]) for e in m["density_fs"]):
            m["density_fs"].append([with_embed[0], x, {"ranges": [{"m": None, "s": None, "body": {"k": "form", "name": "polynomial", "p": [0, 0.5]}}]}])
        m["density_only_species"] = x
    flt = draw(_filter(sp, shape, mode))
    if density_only and "density_fs" not in m and m["density_only_species"] not in flt["species"]:
        flt["species"] = [m["density_only_species"]] + [x_ for x_ in flt["species"] if len(flt["species"]) < len(sp) - 1 or x_ != flt["species"][0]]
    others = draw(st.lists(_filter(sp), min_size=0, max_size=3))
    order = draw(st.permutations(list(range(len(others) + 1))))
    return {"model": m, "filter": flt, "others": others, "order": list(order),
            "route": draw(st.sampled_from(["FilteredConfigParser", "make_config_parser", "main"] if shape == "only_unknown" else
                                          ["FilteredConfigParser", "FilteredConfigParser", "make_config_parser", "main"]))}


def strategy(tier):
    return _case()


def strata(tier):
    out = []
    for nm, tg, w in (("pair", gen.PAIR_TARGETS, 3), ("eam", sorted(gen.EAM_TARGETS), 5)):
        for mode in ("include", "exclude"):
            out.append(("%s:%s:partial" % (nm, mode), _case(tg, "partial", mode), 3 * w))
            out.append(("%s:%s:unknown" % (nm, mode), _case(tg, "unknown", mode), w))
            out.append(("%s:%s:full" % (nm, mode), _case(tg, "full", mode), w))
            out.append(("%s:%s:only_unknown" % (nm, mode), _case(tg, "only_unknown", mode), w))
        out.append(("%s:empty_include" % nm, _case(tg, "empty", "include"), w))
    eamfs = sorted(t for t, k in gen.EAM_TARGETS.items() if k in ("eam", "fs"))
    for mode in ("include", "exclude"):
        out.append(("eam:hyphenated_label:" + mode, _case(eamfs, "partial", mode, hyphen=True), 2.5))
    fs = sorted(t for t, k in gen.EAM_TARGETS.items() if k == "fs")
    for mode in ("include", "exclude"):
        out.append(("fs:density_only_species:" + mode, st.one_of(_case(fs, "partial", mode, True), _case(fs, "only_unknown", mode, True)), 4))
    std = sorted(t for t, k in gen.EAM_TARGETS.items() if k == "eam")
    for mode in ("include", "exclude"):
        out.append(("eam:density_only_species:" + mode, _case(std, "partial", mode, True), 3))
    return out


def budget(tier):
    if tier == "quick":
        return {"examples": 200}
    return {"examples": 900, "shards": 16}


def hand_edit(secs, flt):
    """delete every pair/embedding/density entry that mentions an unwanted species"""
    s = set(flt["species"])
    out = []
    removed = kept = 0
    for name, ents in secs:
        if name in ("Pair", "EAM-Embed", "EAM-Density"):
            keep = []
            for k, val in ents:
                sp = anymodel.species_of_key(name, k)
                if flt["mode"] == "include":
                    ok = all(x in s for x in sp)
                else:
                    ok = not any(x in s for x in sp)
                if ok:
                    keep.append([k, val])
                    kept += 1
                else:
                    removed += 1
            out.append([name, keep])
        else:
            out.append([name, ents])
    return out, removed, kept


def _lists(cp, kind):
    d = {"pair": [(tuple(p.species), repr(p.potential_form_instance)) for p in cp.pair]}
    if kind != "pair":
        d["eam_embed"] = [(p.species, repr(p.potential_form_instance)) for p in cp.eam_embed]
        if kind == "fs":
            d["eam_density_fs"] = [(tuple(p.species), repr(p.potential_form_instance)) for p in cp.eam_density_fs]
        else:
            d["eam_density"] = [(p.species, repr(p.potential_form_instance)) for p in cp.eam_density]
    return d


def _view(cp, flt):
    if flt["mode"] == "include":
        return FilteredConfigParser(cp, include=list(flt["species"]))
    return FilteredConfigParser(cp, exclude=list(flt["species"]))


def check_case(case):
    m, flt = case["model"], case["filter"]
    kind, target = m["kind"], m["target"]
    cls = ["mode:" + flt["mode"], "kind:" + kind, "target:" + target, "route:" + case["route"]]
    if m.get("hyphenated"):
        cls.append("hyphenated_label:" + ("named_by_filter" if m["hyphenated"] in flt["species"] else "not_named"))
    if m.get("density_only_species") and "density_fs" not in m:
        cls.append("eam:species_with_density_entry_only:" + ("named_by_filter" if m["density_only_species"] in flt["species"] else "not_named"))
    elif m.get("density_only_species") and m["density_only_species"] not in flt["species"]:
        cls.append("fs:species_in_density_keys_only")
    secs = anymodel.sections_of(m)
    text = anymodel.text_of(secs)
    edited, removed, kept = hand_edit(secs, flt)
    etext = anymodel.text_of(edited)
    if removed and kept:
        cls.append("removes_and_keeps")
    used = set(x for n, ents in secs if n in ("Pair", "EAM-Embed", "EAM-Density") for k, _ in ents
               for x in anymodel.species_of_key(n, k))
    if set(flt["species"]) - used:
        cls.append("unknown_label")
        if flt["species"] and not set(flt["species"]) & used:
            cls.append("only_unknown_labels:" + flt["mode"] + ":" + ("command_line_glue" if case["route"] in ("make_config_parser", "main", "cli") else case["route"]))
    if flt["mode"] == "include" and not flt["species"]:
        cls.append("empty_include")
    if len(case["others"]) >= 1:
        cls.append("views>=2")
    v = []
    ctx = "filter %r\n--- file ---\n%s--- hand-edited ---\n%s" % (flt, text, etext)
    try:
        want_lists = _lists(ConfigParser(io.StringIO(etext)), kind)
    except ConfigurationException:
        want_lists = None
    want = anymodel.outcome(etext, target)
    if want[0] == "exception":
        # the hand-edited file itself trips an internal error: outside this property (C16's concern)
        return {"v": [], "cls": cls, "nt": False, "skip": True}
    try:
        if case["route"] == "main" and not flt["species"]:
            case = dict(case, route="FilteredConfigParser")     # an empty list cannot be typed on the command line
        if case["route"] in ("cli", "main"):
            args = ["--include-species" if flt["mode"] == "include" else "--exclude-species"] + list(flt["species"])
            got = anymodel.cli_outcome(text, target, args, inproc=case["route"] == "main")
            if not anymodel.same_outcome(got, want):
                v.append(("cli:output_differs", "CLI %r: %r\nhand-edited file: %r\n%s" % (args, got[:1] + (got[1][:300],), want[:1] + (want[1][:300],), ctx)))
            return {"v": v, "cls": cls, "nt": bool(removed and kept)}
        if case["route"] == "make_config_parser" and flt["species"]:
            mk = lambda: _make_config_parser(io.StringIO(text), None, None, None, list(flt["species"]), flt["mode"] == "exclude")  # noqa: E731
            views = None
        else:
            cp = ConfigParser(io.StringIO(text))
            # several views of one parsed file, created first, read in a generated order
            filters = [flt] + list(case["others"])
            views = [_view(cp, f) for f in filters]
            mk = lambda: views[0]  # noqa: E731
        if views is not None:
            expect = []
            for f in filters:
                e2, _, _ = hand_edit(secs, f)
                try:
                    expect.append(_lists(ConfigParser(io.StringIO(anymodel.text_of(e2))), kind))
                except ConfigurationException:
                    expect.append(None)
            for rnd in range(2):
                for i in case["order"]:
                    if expect[i] is None:
                        continue
                    gl = _lists(views[i], kind)
                    if gl != expect[i]:
                        b = "view_interference" if i != 0 or rnd else "parsed_lists"
                        if i == 0 and len(views) == 1:
                            b = "parsed_lists"
                        v.append((b, "view %d %r (read round %d, order %r, all views %r) returns %r, hand-edited file gives %r\n%s" % (
                            i, filters[i], rnd, case["order"], filters, gl, expect[i], ctx)))
                        break
                if v:
                    break
        elif want_lists is not None:
            gl = _lists(mk(), kind)
            if gl != want_lists:
                v.append(("parsed_lists", "filtered parser returns %r, hand-edited file gives %r\n%s" % (gl, want_lists, ctx)))
        got = anymodel.outcome_from_parser(mk, target)
        if not anymodel.same_outcome(got, want):
            v.append(("output_differs", "filtered: %r\nhand-edited: %r\n%s" % (got[:1] + (got[1][:300],), want[:1] + (want[1][:300],), ctx)))
        if views is not None and len(views) > 1 and not v:
            # every view (and the unfiltered parser itself) TABULATED in the generated order, all from the one parsed
            # file: each output is that of its own hand-edited file, whatever was tabulated before
            cls.append("views_tabulated")
            seq = [("view %d %r" % (i, filters[i]), (lambda i=i: views[i]), anymodel.text_of(hand_edit(secs, filters[i])[0])) for i in case["order"]]
            seq.insert(len(seq) // 2, ("the unfiltered parser", (lambda: cp), text))
            for label, getter, etxt in seq + seq[:1]:
                w2 = anymodel.outcome(etxt, target)
                if w2[0] == "exception":
                    continue
                g2 = anymodel.outcome_from_parser(getter, target)
                if not anymodel.same_outcome(g2, w2):
                    v.append(("view_interference:output", "%s tabulated after %r: %r\nits hand-edited file gives %r\n%s" % (
                        label, [x[0] for x in seq], g2[:1] + (g2[1][:300],), w2[:1] + (w2[1][:300],), ctx)))
                    break
    except Exception as e:
        v.append(("exception:%s@%s" % (type(e).__name__, libroute.innermost_atsim_frame(e)), "%r\n%s" % (e, ctx)))
    return {"v": v, "cls": cls, "nt": bool(removed and kept)}


def extra(tier, seed, record):
    import hypothesis
    from hypothesis import given, settings, HealthCheck, Phase
    n = 5 if tier == "quick" else 80
    done = {"n": 0}

    @hypothesis.seed(seed * 7919 + 29)
    @settings(max_examples=n, database=None, deadline=None, suppress_health_check=list(HealthCheck), phases=[Phase.generate])
    @given(_case())
    def run(case):
        if not case["filter"]["species"]:
            return
        case = dict(case, route="cli")
        res = check_case(case)
        if not res.get("skip"):
            done["n"] += 1
        record(case, res)
    run()
    return {"cli_runs": done["n"]}
