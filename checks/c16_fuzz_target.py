#!/venv/bin/python
"""Coverage-guided campaign for C16 (thorough tier).

libFuzzer (atheris) mutates a byte string that a small decoder turns into structured arguments:
(base model, catalogue operator, site) and/or a list of character-level edits of the rendered
text of a well-formed base model.  The oracle runs inside the target:
  * catalogue operator applied  -> outcome must be a configuration error (the C16 oracle itself);
  * arbitrary text edits        -> outcome must be a table or a configuration error, never an exception
                                   escaping from the configuration layer (numeric failures while
                                   *evaluating* a syntactically valid function are not structural).
hypothesis' fuzz_one_input is not used: in hypothesis 6.168 BytestringProvider.draw_integer rejects
every draw whose lower bound exceeds the drawn bit range (st.permutations never terminates), see DESIGN 7.
Findings are appended to $VERIF_C16_OUT as they occur (libFuzzer exits without unwinding).
"""
import json
import os
import sys
import warnings

warnings.filterwarnings("ignore")
HERE = os.path.dirname(os.path.dirname(os.path.abspath(__file__)))
sys.path.insert(0, HERE)
sys.path.append(os.path.join(HERE, ".deps"))

import atheris  # noqa: E402

with atheris.instrument_imports(include=["atsim"]):
    from vlib import bootstrap
    bootstrap.activate()
    import atsim.potentials.config  # noqa: F401
    import atsim.potentials.tools.potable  # noqa: F401

from vlib import anymodel  # noqa: E402
from checks import c16_malformed as C  # noqa: E402

OUT = os.environ.get("VERIF_C16_OUT", os.path.join(HERE, ".work", "C16", "atheris.jsonl"))
BASE = json.load(open(os.path.join(HERE, "checks", "c16_base_models.json")))
TEXTS = [(m["target"], anymodel.text_of(anymodel.sections_of(m))) for m in BASE]
ALPHABET = "\n []():=-><.,${}#;\t0123456789eas.bucknrdtf_"
NUMERIC_FRAMES = ("potentialfunctions.py", "_pymath.py", "tableforms.py", "__init__.py:potential", "_util.py",
                  "_cexprtk_potential_function.py:__call__", "_python_potential_function.py")
state = {"n": 0, "seen": set()}


def emit(obj):
    with open(OUT, "a") as f:
        f.write(json.dumps(obj) + "\n")


def target(data):
    fdp = atheris.FuzzedDataProvider(data)
    state["n"] += 1
    if state["n"] % 500 == 0:
        emit({"kind": "count", "n": state["n"]})
    bi = fdp.ConsumeIntInRange(0, len(BASE) - 1)
    mode = fdp.ConsumeIntInRange(0, 3)
    if mode == 0:
        case = {"model": BASE[bi], "op": C.OPERATORS[fdp.ConsumeIntInRange(0, len(C.OPERATORS) - 1)],
                "site": fdp.ConsumeIntInRange(0, 60), "route": "inproc"}
        res = C.check_case(case)
    else:
        tgt, text = TEXTS[bi]
        edits = []
        chars = list(text)
        for _ in range(fdp.ConsumeIntInRange(1, 6)):
            if not chars:
                break
            pos = fdp.ConsumeIntInRange(0, len(chars) - 1)
            kind = fdp.ConsumeIntInRange(0, 2)
            ch = ALPHABET[fdp.ConsumeIntInRange(0, len(ALPHABET) - 1)]
            edits.append([kind, pos, ch])
            if kind == 0:
                chars[pos] = ch
            elif kind == 1:
                chars.insert(pos, ch)
            else:
                del chars[pos]
        case = {"text_edit": {"base": bi, "edits": edits}}
        res = C.check_text_edit(case)
    for bucket, _ in res.get("v", ()):
        if bucket not in state["seen"]:
            state["seen"].add(bucket)
            emit({"kind": "finding", "case": case, "res": res})


def main():
    os.makedirs(os.path.dirname(OUT), exist_ok=True)
    atheris.Setup(sys.argv, target)
    atheris.Fuzz()


if __name__ == "__main__":
    main()
