"""C12 -- tabulation is deterministic; evaluation is pure (no history / process dependence).

Histories: Hypothesis generates a pool of 2..3 whole models (pair, EAM, Finnis-Sinclair, ADP; custom forms that
share sub-forms called with different arguments; two models that define the SAME form names differently;
under-specified EAM models with several zero-filled species) and a sequence of 4..14 operations over them:
  build(m) | write(t) | evaluate(t, function, r) | rebuild_and_write(m)
interpreted against a model: every write of model m must equal its first write (cell contents for workbooks),
every evaluation must equal (bitwise) every other evaluation of the same (model, function, r) in the history and
agree with the reference semantics.
Processes: the texts of the models seen are re-tabulated in fresh child processes under
PYTHONHASHSEED in {0, 1, 2, 3, random} and in shuffled orders; all digests must agree.
"""
import hashlib
import io
import json
import os
import subprocess
import sys

from hypothesis import strategies as st

from vlib import bootstrap, gen, model, libroute, anymodel
from vlib.num import DomainError, EPS

bootstrap.activate()

ID = "C12"
LEVEL = "exploration"
RULE = ("Hypothesis generates (models, operation history) pairs: 2..3 whole models drawn for random targets (one "
        "stratum forces two models that reuse the same custom-form names with different formulas, one forces "
        "under-specified EAM models with >= 2 zero-filled species) and 4..14 build/write/evaluate/rebuild "
        "operations (further strata: a custom form used directly and as a sub-form; EAM models over the same elements "
        "with different [Species] overrides); the interpreter checks the invariants after every step. Non-trivial = >= 2 distinct models "
        "and an evaluate between two writes of the same model; distinct = canonical JSON. Stage B runs the models "
        "of the run in child processes under five hash seeds and shuffled orders, and pairs of models (after its "
        "neighbour vs alone) in fresh processes.")
ASSUMPTIONS = [
    "xlsx workbooks carry the wall clock in their zip metadata: 'byte-identical' is checked on decoded cell contents",
    "the hash seed cannot be varied inside a process; stage B varies it across child processes",
]
REQUIRED = {"failing_evaluation": 10, "stratum:colliding_arguments": 3, "stratum:shared_names": 15, "stratum:underspecified": 15, "stratum:nested_forms": 8, "stratum:shared_elements": 8, "interleaved_eval": 40, "models>=2": 60,
            "op:rebuild_write": 25, "hashseed_models": 20}


def _rename_forms(customs, suffix):
    return customs


@st.composite
def _models(draw, stratum):
    n = draw(st.integers(2, 3))
    ms = []
    if stratum == "failing_evals":
        # models in which some evaluations legitimately FAIL (a formula leaving pymath.sqrt's domain below a
        # threshold, Coulomb at r = 0 under an inclusive range): the outcome of evaluating at r - value or the
        # kind of failure - must be the same every time, whatever happened before
        for i in range(n):
            m = draw(gen.any_model(["LAMMPS", "GULP"], 1, 3, depth=0, tables=False, customs=False))
            c = draw(st.sampled_from([0.8, 1.2, 2.0]))
            m["env"]["custom"] = [{"name": "faulty", "params": ["r"], "expr": {
                "o": "+", "a": {"o": "pymath", "f": "sqrt", "args": [{"o": "-", "a": {"o": "var", "n": "r"}, "b": {"o": "num", "v": c}}]},
                "b": {"o": "num", "v": draw(st.integers(1, 5))}}}]
            m["pair"][0][2] = {"ranges": [{"m": None, "s": None, "body": {"k": "custom", "name": "faulty", "p": []}}]}
            if len(m["pair"]) > 1:
                m["pair"][1][2] = {"ranges": [{"m": ">=", "s": 0, "body": {"k": "form", "name": "coul", "p": [1, -2]}}]}
            ms.append(m)
    elif stratum == "nested_forms":
        # a custom form used directly with fixed parameters AND called with other arguments from inside another
        # form's formula, in one model: evaluations of the two alternate in every history (and row by row in
        # the targets that write all columns of a row together)
        for i in range(n):
            m = draw(gen.any_model(gen.PAIR_TARGETS, 1, 3, depth=0, tables=False, customs=False))
            cs = draw(gen.custom_forms(3, 2, last_feature="custom"))
            if draw(st.booleans()):
                # hand-made pair of formulas that certainly read their parameters: g calls f with other arguments
                V = lambda nm: {"o": "var", "n": nm}
                N = lambda x: {"o": "num", "v": x}
                fexpr = draw(st.sampled_from([
                    {"o": "+", "a": {"o": "*", "a": V("a"), "b": V("r")}, "b": V("b0")},
                    {"o": "+", "a": {"o": "/", "a": V("a"), "b": {"o": "+", "a": N(1.0), "b": {"o": "*", "a": V("r"), "b": V("r")}}},
                     "b": {"o": "*", "a": V("b0"), "b": V("r")}}]))
                call = {"o": "custom", "f": "nestf", "args": [V("r"), {"o": "*", "a": N(draw(st.sampled_from([2, 0.5, 3]))), "b": V("q")},
                                                             N(draw(st.sampled_from([0.5, 1.25, -1])))]}
                gexpr = draw(st.sampled_from([{"o": "+", "a": {"o": "*", "a": V("q"), "b": call}, "b": V("r")},
                                              {"o": "-", "a": call, "b": {"o": "*", "a": V("q"), "b": V("r")}}]))
                cs = [{"name": "nestf", "params": ["r", "a", "b0"], "expr": fexpr}, {"name": "nestg", "params": ["r", "q"], "expr": gexpr}]
            g = cs[-1]
            called = []

            def find(e):
                if isinstance(e, dict):
                    if e.get("o") == "custom":
                        called.append(e["f"])
                    for x in e.values():
                        find(x)
                elif isinstance(e, list):
                    for x in e:
                        find(x)
            find(g["expr"])
            f = [c for c in cs if c["name"] == called[0]][0]

            def leaf(form):
                k = len(form["params"]) - 1
                return {"k": "custom", "name": form["name"], "p": draw(st.lists(gen.number(0.2, 4), min_size=k, max_size=k))}

            def single(b):
                return {"ranges": [{"m": None, "s": None, "body": b}]}
            defs = [single({"k": "mod", "m": draw(st.sampled_from(["sum", "product"])), "args": [single(leaf(f)), single(leaf(g))]}),
                    single(leaf(f)), single(leaf(g))]
            m["env"]["custom"] = cs
            for k, pr in enumerate(m["pair"]):
                pr[2] = defs[k % 3]
            ms.append(m)
    elif stratum == "shared_elements":
        # EAM models over the same two or three real elements, each with its own [Species] overrides (or none):
        # the element header of a model is a function of that model alone
        pool = draw(st.sampled_from([["Al", "Cu"], ["Ni", "Al", "H"], ["Fe", "O"]]))
        bare = draw(st.integers(0, n - 1))
        for i in range(n):
            m = draw(gen.any_model(sorted(gen.EAM_TARGETS), 1, len(pool), depth=0, tables=False, customs=False, pool=pool))
            if i == bare:
                m["species"] = []
            ms.append(m)
    elif stratum == "fs_same_entries":
        # Finnis-Sinclair models over the same two elements whose [EAM-Density] (and one [Pair]) entries read the
        # same in every model - 'Al->Cu : densf 3' - while the formula called densf differs from model to model
        V = lambda nm: {"o": "var", "n": nm}
        shapes = [{"o": "*", "a": V("a"), "b": V("r")}, {"o": "*", "a": V("a"), "b": {"o": "*", "a": V("r"), "b": V("r")}},
                  {"o": "*", "a": V("a"), "b": {"o": "+", "a": V("r"), "b": {"o": "num", "v": 1.0}}}]
        order = draw(st.permutations([0, 1, 2]))
        for i in range(n):
            t = draw(st.sampled_from(["setfl_fs", "DL_POLY_EAM_fs", "excel_eam_fs"]))
            m = draw(gen.any_model([t], 2, 2, depth=0, tables=False, customs=False, pool=["Al", "Cu"]))
            m["env"]["custom"] = [{"name": "densf", "params": ["r", "a"], "expr": shapes[order[i]]}]
            leaf = lambda p: {"ranges": [{"m": None, "s": None, "body": {"k": "custom", "name": "densf", "p": [p]}}]}
            m["density_fs"] = [e for e in m["density_fs"] if (e[0], e[1]) not in (("Al", "Cu"), ("Cu", "Al"))] + [
                ["Al", "Cu", leaf(3)], ["Cu", "Al", leaf(2)]]
            m["pair"] = [e for e in m["pair"] if set((e[0], e[1])) != {"Al", "Cu"}] + [["Al", "Cu", leaf(1.5)]]
            ms.append(m)
    elif stratum == "colliding_arguments":
        # one formula shared by every [Pair] entry of a model, called with parameter lists that differ but collide
        # under a lossy key: hash(-1.0) == hash(-2.0), hash(1.0) == hash(2.0**61), hash(0.5) == hash(2.0**60),
        # values of opposite sign, and lists that agree in all but the last parameter.  The history evaluates
        # the entries one after the other at the SAME separation (see _case)
        V = lambda nm: {"o": "var", "n": nm}
        fam = [[-1.0, -2.0], [1.0, 2.0 ** 61], [2.0 ** 60, 0.5], [-2.0, -1.0, 1.0], [3.0, 3.5], [2.5, -2.5]]
        for i in range(n):
            m = draw(gen.any_model(["LAMMPS", "DL_POLY", "GULP"], 2, 3, depth=0, tables=False, customs=False))
            two = draw(st.booleans())
            expr = {"o": "+", "a": {"o": "*", "a": V("k"), "b": V("r")}, "b": V("c")} if two else {"o": "*", "a": V("k"), "b": V("r")}
            m["env"]["custom"] = [{"name": "lin", "params": ["r", "c", "k"] if two else ["r", "k"], "expr": expr}]
            ks = draw(st.sampled_from(fam))
            ks = ks if draw(st.booleans()) else ks[::-1]
            c0 = draw(st.sampled_from([0.25, 1.0, -3.0]))
            for j, e in enumerate(m["pair"]):
                e[2] = {"ranges": [{"m": None, "s": None, "body": {"k": "custom", "name": "lin", "p": ([c0] if two else []) + [ks[j % len(ks)]]}}]}
            ms.append(m)
    elif stratum == "underspecified":
        for i in range(n):
            t = draw(st.sampled_from(["setfl", "DL_POLY_EAM", "setfl_fs", "DL_POLY_EAM_fs", "excel_eam", "eam_adp"]))
            m = draw(gen.any_model([t], 3, 4, depth=0, tables=False))
            # keep one embedding entry only: every other element is zero-filled from the density entries
            m["embed"] = m["embed"][:1]
            if "density" in m:
                have = set(a for a, _ in m["density"])
                for e in m["elements"]:
                    if e not in have:
                        m["density"].append([e, {"ranges": [{"m": None, "s": None, "body": {"k": "form", "name": "constant", "p": [1.5]}}]}])
            ms.append(m)
    else:
        for i in range(n):
            ms.append(draw(gen.any_model(None, 1, 3, depth=1, customs=(stratum not in ("shared_names", "shared_caller")))))
        if stratum == "shared_caller" or (stratum == "shared_names" and draw(st.integers(0, 3)) == 0):
            # the models share the TEXT of a form that calls a helper form, and define that helper differently:
            # what a formula means depends on the file it stands in, not on the files read before
            import copy
            cs = draw(gen.custom_forms(3, 2, last_feature="custom"))
            caller = cs[-1]
            called = []

            def find(e):
                if isinstance(e, dict):
                    if e.get("o") == "custom":
                        called.append(e["f"])
                    for x in e.values():
                        find(x)
                elif isinstance(e, list):
                    for x in e:
                        find(x)
            find(caller["expr"])
            k = len(caller["params"]) - 1
            ps = draw(st.lists(gen.number(0.2, 4), min_size=k, max_size=k))
            for i, m in enumerate(ms):
                csi = copy.deepcopy(cs)
                for f in csi:
                    if f["name"] == called[0] and i > 0:
                        f["expr"] = {"o": "+", "a": f["expr"], "b": {"o": "num", "v": 0.5 * i + 1.0}}
                m["env"]["custom"] = csi
                pd = {"ranges": [{"m": None, "s": None, "body": {"k": "custom", "name": caller["name"], "p": ps}}]}
                if m["kind"] == "pair":
                    m["pair"][0][2] = pd
                else:
                    m["embed"][0][1] = pd
        elif stratum == "shared_names":
            # every model gets custom forms drawn independently but with the SAME names
            names = None
            for m in ms:
                cs = draw(gen.custom_forms(3, 2, min_forms=2))
                if names is None:
                    names = [c["name"] for c in cs]
                ren = dict(zip([c["name"] for c in cs], names + ["zz%d" % k for k in range(5)]))
                cs = json.loads(_rename(json.dumps(cs), ren))
                m["env"]["custom"] = cs
                leaf = draw(gen.custom_leaf(cs))
                pd = {"ranges": [{"m": None, "s": None, "body": leaf}]}
                if m["kind"] == "pair":
                    m["pair"][0][2] = pd
                else:
                    m["embed"][0][1] = pd
    return ms


def _rename(text, ren):
    """rename custom forms (their definitions and the calls of them inside other formulas) - and nothing else: a
    formula may be called 'constant' or 'buck' like the standard forms 'as.constant', 'as.buck' it uses"""
    def walk(e):
        if isinstance(e, dict):
            if e.get("o") == "custom" and e.get("f") in ren:
                e["f"] = ren[e["f"]]
            for x in e.values():
                walk(x)
        elif isinstance(e, list):
            for x in e:
                walk(x)
    cs = json.loads(text)
    for c in cs:
        walk(c["expr"])
        c["name"] = ren.get(c["name"], c["name"])
    return json.dumps(cs)


@st.composite
def _case(draw, stratum):
    ms = draw(_models(stratum))
    nops = draw(st.integers(4, 14))
    ops = [["build", 0], ["write", 0]]
    for _ in range(nops):
        k = draw(st.sampled_from(["build", "write", "write", "eval", "eval", "eval", "rebuild_write"]))
        if k in ("build", "rebuild_write"):
            ops.append([k, draw(st.integers(0, len(ms) - 1))])
        elif k == "write":
            ops.append([k, draw(st.integers(0, 9))])
        else:
            rs = [0.5, 1.0, 1.7, 2.25, 3.0] if stratum != "failing_evals" else [0.0, 0.5, 0.5, 1.0, 1.7, 2.25, 3.0]
            ops.append([k, draw(st.integers(0, 9)), draw(st.integers(0, 9)), draw(st.sampled_from(rs))])
    if stratum == "colliding_arguments":
        # every function of every built model at one separation, back to back, twice over in changing order
        for _ in range(draw(st.integers(1, 3))):
            r = draw(st.sampled_from([0.5, 1.0, 1.7, 2.25, 3.0]))
            t = draw(st.integers(0, 9))
            order = draw(st.permutations([0, 1, 2, 3]))
            for fi in list(order) + list(order[::-1]):
                ops.append(["eval", t, fi, r])
    ops.append(["write", 0])
    return {"stratum": stratum, "models": ms, "ops": ops}


def strategy(tier):
    return _case("mixed")


def strata(tier):
    return [("mixed", _case("mixed"), 4), ("shared_names", _case("shared_names"), 2.5), ("shared_caller", _case("shared_caller"), 2), ("fs_same_entries", _case("fs_same_entries"), 1.5), ("underspecified", _case("underspecified"), 3),
            ("failing_evals", _case("failing_evals"), 3), ("nested_forms", _case("nested_forms"), 3),
            ("shared_elements", _case("shared_elements"), 2), ("colliding_arguments", _case("colliding_arguments"), 2.5)]


def budget(tier):
    if tier == "quick":
        return {"examples": 110}
    return {"examples": 600, "shards": 16}


def _text(m):
    return anymodel.text_of(anymodel.sections_of(m))


def _written(tab, target):
    return anymodel.normalise_output(target, libroute.write_text(tab))


def check_case(case):
    if "hashseed_texts" in case or "order_texts" in case:
        return _check_hashseeds(case)
    ms = case["models"]
    texts = [_text(m) for m in ms]
    cls = ["stratum:" + case["stratum"]]
    if len(set(texts)) >= 2:
        cls.append("models>=2")
    v = []
    tabs = []            # (model index, tabulation object)
    first = {}           # model index -> first written output
    evals = {}           # (model index, function label, r) -> value
    last_write = {}      # model index -> op index of last write
    interleaved = False
    ctx = lambda i: "history %r\n--- model %d ---\n%s" % (case["ops"], i, texts[i])  # noqa: E731
    try:
        for oi, op in enumerate(case["ops"]):
            kind = op[0]
            cls.append("op:" + kind)
            if kind == "build":
                mi = op[1] % len(ms)
                tabs.append((mi, libroute.read_text(texts[mi])))
            elif kind == "rebuild_write" or kind == "write":
                if kind == "rebuild_write":
                    mi = op[1] % len(ms)
                    tab = libroute.read_text(texts[mi])
                    tabs.append((mi, tab))
                else:
                    if not tabs:
                        continue
                    mi, tab = tabs[op[1] % len(tabs)]
                try:
                    out = _written(tab, ms[mi]["target"])
                except Exception as e:
                    # a model whose function is undefined on the grid (the library's documented evaluation error) is a
                    # refused tabulation, not a determinism failure: the refusal is the outcome that has to repeat
                    if case["stratum"] != "failing_evals" and type(e).__name__ != "Potential_Form_Exception":
                        raise
                    out = "FAILS:" + type(e).__name__
                    cls.append("failing_write")
                if mi in first and out != first[mi]:
                    v.append(("write_differs:%s" % kind, "operation %d (%r): output of model %d differs from its first write "
                              "(%d vs %d characters, digests %s vs %s)\n%s" % (oi, op, mi, len(out), len(first[mi]),
                                                                                anymodel.digest(out), anymodel.digest(first[mi]), ctx(mi))))
                    break
                first.setdefault(mi, out)
                if mi in last_write and any(k[0] == mi and e[1] > last_write[mi] for k, e in evals.items()):
                    interleaved = True
                last_write[mi] = oi
            else:
                if not tabs:
                    continue
                mi, tab = tabs[op[1] % len(tabs)]
                fns = sorted(libroute.functions(tab).items())
                if not fns:
                    continue
                label, f = fns[op[2] % len(fns)]
                r = op[3]
                try:
                    got = f(r)
                except Exception as e:
                    if case["stratum"] != "failing_evals" and type(e).__name__ != "Potential_Form_Exception":
                        raise
                    got = "FAILS:" + type(e).__name__
                    cls.append("failing_evaluation")
                key = (mi, label, r)
                if key in evals and evals[key][0] != got and not (got != got and evals[key][0] != evals[key][0]):
                    v.append(("evaluation_not_pure", "operation %d (%r): %s of model %d at r=%r gave %r, earlier in this "
                              "history it gave %r\n%s" % (oi, op, label, mi, r, got, evals[key][0], ctx(mi))))
                    break
                evals[key] = (got, oi)
                want = _reference(ms[mi], label, r) if not isinstance(got, str) else None
                if want is not None and not abs(got - want.v) <= 256 * EPS * want.c[0].e + 1e-300:
                    v.append(("evaluation_wrong", "operation %d (%r): %s of model %d at r=%r gave %r, its definition "
                              "gives %r\n%s" % (oi, op, label, mi, r, got, want.v, ctx(mi))))
                    break
    except (OverflowError, ZeroDivisionError):
        return {"v": [], "cls": sorted(set(cls)), "nt": False, "skip": True}
    except Exception as e:
        v.append(("exception:%s@%s" % (type(e).__name__, libroute.innermost_atsim_frame(e)), "%r\nhistory %r\n%s" % (
            e, case["ops"], "\n".join(texts))))
    if interleaved:
        cls.append("interleaved_eval")
    nt = "models>=2" in cls and interleaved
    return {"v": v, "cls": sorted(set(cls)), "nt": nt}


def _reference(m, label, r):
    """reference jet of the named function of a model, or None when not applicable"""
    role, _, key = label.partition(":")
    lk = None
    try:
        if role == "pair":
            a, b = key.split("-")
            lk = [pd for x, y, pd in m["pair"] if (x, y) == (a, b)]
        elif role == "embed":
            lk = [pd for x, pd in m.get("embed", []) if x == key]
        elif role == "density" and "->" in key:
            a, b = key.split("->")
            lk = [pd for x, y, pd in m.get("density_fs", []) if (x, y) == (a, b)]
        elif role == "density":
            lk = [pd for x, pd in m.get("density", []) if x == key]
        elif role in ("dipole", "quadrupole"):
            a, b = key.split("-")
            lk = [pd for x, y, pd in m.get(role, []) if (x, y) == (a, b)]
        if not lk or len(lk) != 1:
            return None
        from vlib.pairtab import strip_has
        j, _ = model.evaluate(model.Ref(m["env"]), strip_has(lk[0]), r)
        return j
    except (DomainError, OverflowError, ZeroDivisionError, ValueError):
        return None


# ---- stage B: fresh processes, different hash seeds -----------------------------------
_CHILD = r"""
import sys, json, hashlib, io, random
from vlib import libroute, anymodel
items = json.load(sys.stdin)
order = list(range(len(items)))
if sys.argv[1] != "fixed":
    random.Random(int(sys.argv[1])).shuffle(order)
out = {}
for i in order:
    target, text = items[i]
    o = anymodel.outcome(text, target)
    out[str(i)] = [o[0], hashlib.sha1(o[1].encode()).hexdigest()]
print(json.dumps(out))
"""


def _run_hashseeds(items):
    """items: [(target, text)] -> {seed: {index: [status, digest]}}"""
    res = {}
    for k, seed in enumerate(["0", "1", "2", "3", "random"]):
        env = dict(os.environ, PYTHONHASHSEED=seed, PYTHONWARNINGS="ignore")
        code = bootstrap.repo_python_shim() + _CHILD
        p = subprocess.run([sys.executable, "-W", "ignore", "-c", code, str(k)], input=json.dumps(items).encode(),
                           stdout=subprocess.PIPE, stderr=subprocess.PIPE, env=env, timeout=600)
        if p.returncode != 0:
            raise RuntimeError("hash-seed child failed: %s" % p.stderr.decode()[-500:])
        res[seed] = json.loads(p.stdout.decode().strip().splitlines()[-1])
    return res


def _run_fixed(items):
    """digests of the items tabulated one after the other, in the given order, in ONE fresh process"""
    env = dict(os.environ, PYTHONHASHSEED="0", PYTHONWARNINGS="ignore")
    p = subprocess.run([sys.executable, "-W", "ignore", "-c", bootstrap.repo_python_shim() + _CHILD, "fixed"],
                       input=json.dumps(items).encode(), stdout=subprocess.PIPE, stderr=subprocess.PIPE, env=env, timeout=600)
    if p.returncode != 0:
        if p.returncode < 0:
            # the interpreter died of a signal (a crash inside an extension module): keep the input
            with open("/var/tmp/c12_child_crash.json", "w") as f:
                json.dump(items, f)
        raise RuntimeError("child failed (status %r): %s" % (p.returncode, p.stderr.decode()[-500:]))
    res = json.loads(p.stdout.decode().strip().splitlines()[-1])
    return [tuple(res[str(i)]) for i in range(len(items))]


def _check_order(case):
    """the output of a model tabulated after another one (same process) equals its output in a process of its own"""
    first, second = case["order_texts"]
    alone = _run_fixed([second])[0]
    after = _run_fixed([first, second])[1]
    v = []
    if alone != after:
        v.append(("depends_on_models_built_before", "tabulated alone: %r; tabulated after the first model below, in one process: "
                  "%r\n---- first model\n%s\n---- the model\n%s" % (alone, after, first[1], second[1])))
    return {"v": v, "cls": ["order_pairs"], "nt": True, "evals": 2}


def _check_hashseeds(case):
    if "order_texts" in case:
        return _check_order(case)
    items = case["hashseed_texts"]
    res = _run_hashseeds(items)
    v = []
    for i in range(len(items)):
        got = dict((s, tuple(res[s][str(i)])) for s in res)
        if len(set(got.values())) != 1:
            v.append(("hashseed_dependent_output", "output depends on PYTHONHASHSEED: %r\n%s" % (got, items[i][1])))
            break
    return {"v": v, "cls": ["hashseed_models"] * len(items), "nt": True, "evals": 5 * len(items),
            "nt_keys": ["hs%d" % i for i in range(len(items))]}


def extra(tier, seed, record):
    import hypothesis
    from hypothesis import given, settings, HealthCheck, Phase
    n = 24 if tier == "quick" else 200
    items = []

    @hypothesis.seed(seed * 7919 + 47)
    @settings(max_examples=n, database=None, deadline=None, suppress_health_check=list(HealthCheck), phases=[Phase.generate])
    @given(st.one_of(_models("underspecified"), _models("mixed"), _models("shared_elements")))
    def collect(ms):
        for m in ms:
            if len(items) < 3 * n:
                items.append([m["target"], _text(m)])
    collect()
    # models whose tables hold zeros of both signs (a constant potential has the forces -0.0, a cut-off tail the
    # energies +0.0): how a zero is printed must not depend on which zero was formatted first in the process
    for tgt, nr in (("DL_POLY", 8), ("LAMMPS", 6)):
        head = "[Tabulation]\ntarget : %s\nnr : %d\ncutoff : 2.0\n\n[Pair]\n" % (tgt, nr)
        items.append([tgt, head + "A-A : as.constant 5.0\n"])
        items.append([tgt, head + "A-A : as.buck 1000.0 0.3 10.0 >=1.0 as.zero\n"])
        items.append([tgt, head + "A-A : as.polynomial 0.0 -1.5 >=1.0 as.constant 0.0\n"])
    # all models in one batch per hash seed; a disagreement is re-examined model by model
    res = _run_hashseeds(items)
    bad = [i for i in range(len(items)) if len(set(tuple(res[s][str(i)]) for s in res)) != 1]
    record({"hashseed_texts": items[:2]}, {"v": [], "cls": ["hashseed_models"] * len(items), "nt": True,
                                           "evals": 5 * len(items), "nt_keys": ["hs%d" % i for i in range(len(items))]})
    for i in bad[:5]:
        case = {"hashseed_texts": [items[i]]}
        res1 = _check_hashseeds(case)
        record(case, res1)
        if not res1["v"]:
            # not the hash seed: the batches differ in ORDER, so some model tabulated before this one changes it
            for j in range(len(items)):
                if j != i:
                    c2 = {"order_texts": [items[j], items[i]]}
                    r2 = _check_order(c2)
                    if r2["v"]:
                        record(c2, r2)
                        break
    # adjacent models of the collection, pairwise: after its neighbour vs alone
    npairs = 6 if tier == "quick" else 60
    for j in range(0, min(len(items) - 1, 2 * npairs), 2):
        c2 = {"order_texts": [items[j], items[j + 1]]}
        record(c2, _check_order(c2))
    return {"hashseed_models": len(items), "hash_seeds": ["0", "1", "2", "3", "random"], "hashseed_disagreements": len(bad)}
