"""C17 -- a failed tabulation never leaves a partial table behind.

For every tabulation target: a generated small model and grid; the position k of
the failing function evaluation is ENUMERATED over every evaluation performed
during the write (measured by a fault-free dry run), in pair, density, embedding,
dipole and quadrupole functions alike.
Injection (API route): every callable of the model is wrapped around a shared
counter that raises at the k-th evaluation.  Injection (potable route): a custom
form that leaves the domain of pymath.sqrt from a chosen row on, placed in each
function kind in turn; run through Configuration.read(...).write(fp), potable's
action_tabulate(cp, filename) and the real CLI.
Oracle: after the failure the file object is empty (the named file empty or
absent, the CLI exit status non-zero); with k beyond the last evaluation the
output is byte-identical to the fault-free output (cell contents for workbooks).
"""
import io
import os
import re
import tempfile

from hypothesis import strategies as st

from vlib import bootstrap, gen, libroute, pairtab, eamtab, anymodel, render

bootstrap.activate()
import atsim.potentials as ap  # noqa: E402
from atsim.potentials import pair_tabulation as PT, eam_tabulation as ET  # noqa: E402
from atsim.potentials.config import ConfigParser  # noqa: E402
from atsim.potentials.tools.potable import _actions  # noqa: E402

ID = "C17"
LEVEL = "fault_enumeration"
RULE = ("Hypothesis draws, for each of the 11 tabulation targets (strata), a small model (1..3 species, simple "
        "definitions) and grid (3..8 rows); for that model every position k = 1..total of the failing function "
        "evaluation is enumerated (total measured by a fault-free dry run), plus k = total+1 (no fault). The "
        "potable route places a domain-leaving custom form in each function kind and runs write(), action_tabulate "
        "and (sampled) the CLI. Strata large:<target> use tables above 1 MiB with k at 30/55/80/97/100 %. "
        "One evaluation = one (model, route, k) write attempt; non-trivial = k is an "
        "interior position (1 < k < total) or the first/last evaluation of a function kind; distinct = distinct "
        "(case hash, k).")
ASSUMPTIONS = [
    "'fails' means the evaluation raises; process kills and I/O errors are outside the statement",
    "Python callables wrapped for injection offer no analytic derivative, so forces are obtained through the "
    "numerical fallback (each force evaluation is two counted function evaluations)",
]
TARGETS = ["LAMMPS", "DLPOLY", "GULP", "excel", "setfl", "setfl_fs", "DL_POLY_EAM", "DL_POLY_EAM_fs",
           "excel_eam", "excel_eam_fs", "eam_adp"]
REQUIRED = dict(("target:" + t, 2) for t in TARGETS)
REQUIRED.update({"route:potable": 20, "route:api": 20, "table>=1MiB": 4})
CLASSES = {"LAMMPS": PT.LAMMPS_PairTabulation, "DLPOLY": PT.DLPoly_PairTabulation, "GULP": PT.GULP_PairTabulation,
           "excel": PT.Excel_PairTabulation, "setfl": ET.SetFL_EAMTabulation, "setfl_fs": ET.SetFL_FS_EAMTabulation,
           "DL_POLY_EAM": ET.TABEAM_EAMTabulation, "DL_POLY_EAM_fs": ET.TABEAM_FinnisSinclair_EAMTabulation,
           "excel_eam": ET.Excel_EAMTabulation, "excel_eam_fs": ET.Excel_FinnisSinclair_EAMTabulation,
           "eam_adp": ET.ADP_EAMTabulation}


class Injected(Exception):
    pass


class OutOfDomain(Exception):
    pass


# the failure of a user's function may be of any type: the ones arithmetic raises by itself in turn, so that a writer
# which catches (and survives) one of them is seen
class InjectedZeroDivision(Injected, ZeroDivisionError):
    pass


class InjectedOverflow(Injected, OverflowError):
    pass


class InjectedValue(Injected, ValueError):
    pass


class InjectedType(Injected, TypeError):
    pass


INJECTED_TYPES = [Injected, InjectedZeroDivision, InjectedOverflow, InjectedValue, InjectedType]


class Counter(object):
    def __init__(self, fail_at=None):
        self.n = 0
        self.fail_at = fail_at
        self.kinds = []

    def wrap(self, f, kind):
        def g(x):
            self.n += 1
            self.kinds.append(kind)
            if self.fail_at is not None and self.n == self.fail_at:
                raise INJECTED_TYPES[self.n % len(INJECTED_TYPES)]("injected failure at evaluation %d (%s)" % (self.n, kind))
            return f(x)
        return g


@st.composite
def _case(draw, target, large=False):
    route = "api" if large else draw(st.sampled_from(["api", "potable"]))
    if target in gen.EAM_TARGETS:
        # large: three elements, so that blocks worth more than a megabyte are complete before the last element's
        # functions (and the pair functions, if any are declared) are evaluated
        m = draw(gen.eam_model(gen.EAM_TARGETS[target], 3 if large else 1, 3 if large else 2, depth=0, max_customs=0))
        m["grid"] = {"nr": draw(st.integers(3, 7)), "cutoff": draw(st.sampled_from([2.0, 3.5, 5.0])),
                     "nrho": draw(st.integers(3, 6)), "cutoff_rho": draw(st.sampled_from([1.0, 4.0]))}
        if large:
            # tables of well over a megabyte: whatever is handed to the destination in pieces shows only here
            m["grid"]["nr"] = m["grid"]["nrho"] = draw(st.sampled_from([12000, 14000]))
    else:
        m = draw(gen.pair_model(2, 0, max_tables=0, max_customs=0, min_pots=2 if large else 1))
        m["kind"] = "pair"
        nr = draw(st.integers(3, 8))
        if target == "DLPOLY":
            nr = 8
        if large:
            nr = draw(st.sampled_from([24000, 30000]))
        m["grid"] = {"nr": nr, "cutoff": draw(st.sampled_from([2.0, 3.5, 5.0]))}
    m["large"] = large
    m["target"] = target
    m["route"] = route
    m["fault_row"] = draw(st.integers(0, 6))
    m["fault_kind"] = draw(st.sampled_from(["pair", "embed", "density", "dipole", "quadrupole"]))
    return m


def strategy(tier):
    return _case("LAMMPS")


LARGE_TARGETS = ["LAMMPS", "DLPOLY", "GULP", "setfl", "setfl_fs", "DL_POLY_EAM", "DL_POLY_EAM_fs", "eam_adp"]


def strata(tier):
    return [(t, _case(t), 6) for t in TARGETS] + [("large:" + t, _case(t, True), 1) for t in LARGE_TARGETS]


def budget(tier):
    if tier == "quick":
        return {"examples": 74}
    return {"examples": 440, "shards": 16}


def _build(m, counter):
    """tabulation object through the API with every callable wrapped by the counter"""
    target = m["target"]
    g = m["grid"]
    if m["kind"] == "pair":
        pots = [ap.Potential(p.speciesA, p.speciesB, counter.wrap(p.potentialFunction, "pair"))
                for p in pairtab.api_potentials(m)]
        return CLASSES[target](pots, g["cutoff"], g["nr"])
    objs = eamtab.api_objects(m)
    pairs = [ap.Potential(p.speciesA, p.speciesB, counter.wrap(p.potentialFunction, "pair")) for p in objs[0]]
    eams = []
    for e in objs[1]:
        d = e.electronDensityFunction
        if isinstance(d, dict):
            d = dict((k, counter.wrap(f, "density")) for k, f in sorted(d.items()))
        else:
            d = counter.wrap(d, "density")
        eams.append(ap.EAMPotential(e.species, e.atomicNumber, e.mass, counter.wrap(e.embeddingFunction, "embed"), d,
                                    e.latticeConstant, e.latticeType))
    args = [pairs, eams]
    if target == "eam_adp":
        args.append([ap.Potential(p.speciesA, p.speciesB, counter.wrap(p.potentialFunction, "dipole")) for p in objs[2]])
        args.append([ap.Potential(p.speciesA, p.speciesB, counter.wrap(p.potentialFunction, "quadrupole")) for p in objs[3]])
    return CLASSES[target](*(args + [g["cutoff"], g["nr"], g["cutoff_rho"], g["nrho"]]))


def _fp(target):
    return io.BytesIO() if target.startswith("excel") else io.StringIO()


def _check_api(m, v, stats):
    target = m["target"]
    c0 = Counter()
    fp = _fp(target)
    try:
        _build(m, c0).write(fp)
    except (ZeroDivisionError, OverflowError, ValueError) as e:
        # the generated model itself cannot be tabulated on this grid (a function undefined at r = 0, ...):
        # outside the domain of this check, which injects its own failures into models that tabulate
        raise OutOfDomain(repr(e))
    total = c0.n
    clean = anymodel.normalise_output(target, fp.getvalue())
    kinds = c0.kinds
    stats["totals"].append(total)
    ks = range(1, total + 2)
    if m.get("large"):
        # positions spread over the write instead of every one (each attempt costs ~total evaluations)
        ks = sorted(set([max(1, int(total * f)) for f in (0.3, 0.55, 0.8, 0.97)] + [total]))
        stats["large_bytes"] = len(fp.getvalue())
    for k in ks:
        c = Counter(k)
        fp = _fp(target)
        stats["evaluations"] += 1
        tab = None
        try:
            tab = _build(m, c)
            tab.write(fp)
            raised = False
        except Injected:
            raised = True
        except Exception as e:
            v.append(("api:other_exception:%s" % target, "k=%d: %r" % (k, e)))
            break
        if k <= total:
            first_last = k == 1 or k == total or kinds[k - 1] != kinds[k - 2] or (k < total and kinds[k] != kinds[k - 1])
            stats["nontrivial"].add(k)
            if not raised:
                v.append(("api:failure_swallowed:%s" % target, "evaluation %d of %d (%s) raised but write() returned normally" % (
                    k, total, kinds[k - 1])))
                break
            # "the whole table or nothing" also for a second attempt on the same object once the cause of the
            # failure is gone: it must not hand out a table built from the half-finished first attempt
            if tab is not None and k in (1, max(1, total // 2), total) and not m.get("large"):
                c.fail_at = None
                fp2 = _fp(target)
                try:
                    tab.write(fp2)
                    again = anymodel.normalise_output(target, fp2.getvalue())
                    if again != clean:
                        v.append(("api:retry_after_failure:%s:%s" % (target, kinds[k - 1]),
                                  "target %s: write() failed at evaluation %d of %d (%s function); a second write() on the "
                                  "same object then produced output that differs from the fault-free table (%d vs %d "
                                  "characters)" % (target, k, total, kinds[k - 1], len(again), len(clean))))
                except Exception:
                    pass     # refusing again is 'nothing'
            left = fp.getvalue()
            if len(left) != 0:
                v.append(("api:partial_output:%s:%s" % (target, kinds[k - 1]),
                          "target %s: failure at evaluation %d of %d (in a %s function) left %d %s in the file object: %r" % (
                              target, k, total, kinds[k - 1], len(left), "bytes" if isinstance(left, bytes) else "characters",
                              left[:160])))
                break
        else:
            if raised or anymodel.normalise_output(target, fp.getvalue()) != clean:
                v.append(("api:faultfree_differs:%s" % target, "k=total+1 must reproduce the fault-free output"))


def _potable_text(m, kind, row, which=0):
    """model text in which a function of the given kind leaves the domain of pymath.sqrt from `row` on"""
    g = m["grid"]
    secs = anymodel.sections_of(m)
    rho_kind = kind == "embed"
    n = g["nrho"] if rho_kind else g["nr"]
    step = (g["cutoff_rho"] / (g["nrho"] - 1)) if rho_kind else (g["cutoff"] / (g["nr"] - 1))
    row = max(1, min(row, n - 1))
    limit = (row - 0.5) * step
    # ... or of the expression language's own sqrt / log (which evaluate to nan there instead of raising: F59)
    which = which % 5
    if which == 4:
        # ... or a power of a base that turns negative under a non-integral exponent (complex in Python: F61)
        faulty = "pow(as.polynomial %r -1, as.constant 0.5)" % limit
    else:
        formula = ["pymath.sqrt(%r - r)", "sqrt(%r - r)", "log(%r - r)", "pymath.log(%r - r)"][which] % limit
        secs.append(["Potential-Form", [["faulty(r)", formula]]])
        faulty = "faulty"
    name = {"pair": "Pair", "embed": "EAM-Embed", "density": "EAM-Density", "dipole": "EAM-ADP-Dipole",
            "quadrupole": "EAM-ADP-Quadrupole"}[kind]
    sec = [s for s in secs if s[0] == name]
    if not sec:
        return None
    sec = sec[0]
    if kind == "pair":
        # a pair the writer certainly tabulates
        if m["kind"] == "pair":
            if not sec[1]:
                return None
            sec[1][-1][1] = faulty
        else:
            els = sorted(eamtab.element_set(m))
            key = "%s-%s" % (els[0], els[0])
            sec[1][:] = [e for e in sec[1] if set(anymodel.species_of_key("Pair", e[0])) != {els[0]}]
            sec[1].append([key, faulty])
    elif kind in ("dipole", "quadrupole"):
        els = sorted(eamtab.element_set(m))
        sec[1][:] = [e for e in sec[1] if set(anymodel.species_of_key("Pair", e[0])) != {els[0]}]
        sec[1].append(["%s-%s" % (els[0], els[0]), faulty])
    else:
        if not sec[1]:
            return None
        sec[1][-1][1] = faulty
    return anymodel.text_of(secs)


def _check_potable(m, v, stats, cli=False):
    target = m["target"]
    kinds = ["pair"] if m["kind"] == "pair" else ["pair", "embed", "density"] + (["dipole", "quadrupole"] if m["kind"] == "adp" else [])
    counter = m["fault_row"]
    specs = []
    for kind in kinds:
        for row in sorted(set([1, m["fault_row"], 99])):
            counter += 1
            specs.append((kind, row, counter))               # the five ways of leaving a domain in turn
    specs.append(("pair", 2, 4))                             # ... and the complex power for every model
    specs.append(("pair", 2, 1))                             # ... and the expression language's own sqrt
    for kind, row, which in specs:
        if True:
            text = _potable_text(m, kind, row, which)
            if text is None:
                continue
            stats["evaluations"] += 1
            stats["nontrivial"].add((kind, row))
            # (a) tabulation object
            try:
                tab = libroute.read_text(text)
            except Exception:
                continue      # refused at read: nothing can have been written
            fp = _fp(target)
            try:
                tab.write(fp)
                # no failure reached (e.g. a species the writer ignores): nothing to check - except that a function
                # which cannot be evaluated must not have been tabulated as 'nan' either
                written = anymodel.normalise_output(target, fp.getvalue())
                if "nan" in written.lower() or re.search(r"[0-9]j(\s|$|\")", written):
                    v.append(("potable:no_failure:%s:%s" % (target, kind),
                              "a %s function that is undefined from row %d on did not fail: the table holds nan\n%s" % (kind, row, text)))
                continue
            except Exception as e:
                left = fp.getvalue()
                if len(left) != 0:
                    v.append(("potable:partial_output:%s:%s" % (target, kind),
                              "write() failed with %s in a %s function at row %d but left %d characters/bytes in the "
                              "file object\n%s" % (type(e).__name__, kind, row, len(left), text)))
            # (b) potable's own action on a named file
            d = tempfile.mkdtemp(prefix="verif-c17-", dir="/var/tmp")
            out = os.path.join(d, "table.out")
            try:
                try:
                    _actions.action_tabulate(ConfigParser(io.StringIO(text)), out)
                    v.append(("action:failure_swallowed:%s" % target, "action_tabulate returned normally\n%s" % text))
                except Exception:
                    pass
                if os.path.exists(out) and os.path.getsize(out) != 0:
                    v.append(("action:partial_file:%s:%s" % (target, kind),
                              "action_tabulate failed in a %s function at row %d and left a %d byte file\n%s" % (
                                  kind, row, os.path.getsize(out), text)))
            finally:
                if os.path.exists(out):
                    os.remove(out)
                os.rmdir(d)
            if cli and row == m["fault_row"]:
                res = libroute.run_potable([], text)
                stats["cli"] += 1
                if res["rc"] == 0:
                    v.append(("cli:exit_status_zero:%s" % target, "potable exited 0 although a %s function failed\n%s" % (kind, text)))
                if res["out"]:
                    v.append(("cli:partial_file:%s:%s" % (target, kind), "potable left a %d byte output file\n%s" % (len(res["out"]), text)))


def check_case(m):
    target = m["target"]
    route = m["route"]
    cls = ["target:" + target, "route:" + route]
    v = []
    stats = {"evaluations": 0, "nontrivial": set(), "totals": [], "cli": 0}
    try:
        if route == "api":
            _check_api(m, v, stats)
        else:
            _check_potable(m, v, stats, cli=bool(m.get("cli")))
    except Injected:
        raise
    except OutOfDomain:
        return {"v": [], "cls": cls, "nt": False, "skip": True}
    except Exception as e:
        v.append(("harness:%s:%s@%s" % (target, type(e).__name__, libroute.innermost_atsim_frame(e)), "%r" % (e,)))
    if stats.get("large_bytes", 0) >= 2 ** 20:
        cls.append("table>=1MiB")
    return {"v": v, "cls": cls, "nt": len(stats["nontrivial"]) > 0, "evals": max(1, stats["evaluations"]),
            "nt_keys": sorted(str(k) for k in stats["nontrivial"])}


def extra(tier, seed, record):
    import hypothesis
    from hypothesis import given, settings, HealthCheck, Phase
    n = 3 if tier == "quick" else 33
    done = {"n": 0}

    @hypothesis.seed(seed * 7919 + 43)
    @settings(max_examples=n, database=None, deadline=None, suppress_health_check=list(HealthCheck), phases=[Phase.generate])
    @given(st.sampled_from(TARGETS).flatmap(_case))
    def run(m):
        m = dict(m, route="potable", cli=True)
        res = check_case(m)
        res["cls"] = list(res.get("cls", [])) + ["route:cli"]
        done["n"] += 1
        record(m, res)
    run()
    return {"cli_models": done["n"]}
