"""C19 -- GULP, ADP, funcfl and Excel targets carry the same functions on the same grids.

Strata / routes
  GULP     GULP_PairTabulation | writePotentials('GULP') | potable GULP
  excel    Excel_PairTabulation | potable excel
  eam_adp  ADP_EAMTabulation | potable eam_adp
  excel_eam, excel_eam_fs   Excel_(FinnisSinclair_)EAMTabulation | potable
  funcfl   writeFuncFL
Oracle per target (independent readers, reference semantics):
  GULP   per potential 'spline cubic' / 'A B cutoff' / exactly nr rows 'energy separation' at i*cutoff/(nr-1)
  ADP    a well-formed setfl body (checked as in C03, byte-identical to writeSetFL of the same objects on
         the API route) followed by dipole then quadrupole blocks, unscaled, (i, j<=i) in header order,
         zero where undeclared, nothing after
  funcfl header numbers describe the grid tabulated; Z(r)^2 * 27.2 * 0.529 / r == phi(r) for r > 0;
         embedding and density blocks
  Excel  first column r / rho on the grid, every labelled column equals its function on that row
"""
import io
import math

from hypothesis import strategies as st

from vlib import bootstrap, gen, model, libroute, pairtab, eamtab, parsers, compare, rewrite
from vlib.num import DomainError, EN
from checks import c03_setfl

bootstrap.activate()
import atsim.potentials as ap  # noqa: E402
from atsim.potentials.pair_tabulation import GULP_PairTabulation, Excel_PairTabulation  # noqa: E402
from atsim.potentials.eam_tabulation import ADP_EAMTabulation, Excel_EAMTabulation, Excel_FinnisSinclair_EAMTabulation  # noqa: E402

ID = "C19"
LEVEL = "exploration"
RULE = ("Stratified by target (GULP, excel, eam_adp, excel_eam, excel_eam_fs, funcfl): Hypothesis builds a pair / "
        "EAM / ADP model as for C01/C03/C04, a grid and a route (API class or function, potable text); the output "
        "is read back by an independent parser (text) or openpyxl (cell contents) and every number compared with "
        "the reference. Non-trivial = >= 2 functions in the output with a non-constant one, or an undeclared "
        "dipole/quadrupole pair; distinct = canonical JSON.")
ASSUMPTIONS = [
    "rows are taken at the float the property's own row formula gives (k*delpot; i*step; i*cutoff/(nr-1)); a row that sits EXACTLY on a range boundary is compared (the marker decides its side), a row within 64 ulp of a boundary without being on it is not (nothing can be said about which side a last-bit difference puts it on)",
    "xlsx workbooks are compared on decoded cell contents (zip metadata carries the wall clock)",
    "funcfl pair potentials are generated non-negative (the format stores sqrt(phi*r))",
    "Excel pair columns are accepted under either species order of the label",
]
REQUIRED = {"target:GULP": 20, "target:excel": 15, "target:eam_adp": 20, "target:excel_eam": 15,
            "target:excel_eam_fs": 15, "target:funcfl": 20, "adp:undeclared_multipole": 10, "rewrite:2_writes": 2, "rewrite:one_object": 2, "break_on_row": 8}
XL = ("e", 16)


@st.composite
def _pair_case(draw, target):
    routes = {"GULP": ["class", "writePotentials", "potable", "main"], "excel": ["class", "potable", "main"]}[target]
    route = draw(st.sampled_from(routes))
    m = draw(gen.pair_model(3, 1, pycallables=(route not in ("potable", "main"))))
    cutoff, nr = draw(gen.grid_rc(30, 2))
    m.update({"target": target, "route": route, "cutoff": cutoff, "nr": nr,
              "container": draw(st.sampled_from(["list", "tuple", "iterator", "generator"]))})
    return m


@st.composite
def _eam_case(draw, target):
    kind = {"eam_adp": "adp", "excel_eam": "eam", "excel_eam_fs": "fs"}[target]
    route = draw(st.sampled_from(["class", "potable", "main"]))
    m = draw(gen.eam_model(kind, 1, 3, depth=1, pycallables=(route not in ("potable", "main"))))
    m.update({"target": target, "route": route})
    return m


@st.composite
def _funcfl_case(draw):
    pos = st.one_of(gen._positive_leaf(),
                    st.tuples(st.integers(1, 92), st.integers(1, 92)).map(lambda t: {"k": "form", "name": "zbl", "p": list(t)}),
                    st.tuples(gen.fl(0.1, 50.0), st.integers(-8, 2)).map(lambda t: {"k": "form", "name": "exponential", "p": list(t)}))
    p0 = gen.potdef(0, [], [], max_ranges=1)
    el = draw(st.sampled_from(gen.ELEMENTS))
    return {"target": "funcfl", "route": "function", "kind": "eam", "env": {"custom": [], "table": []},
            "elements": [el], "embed": [[el, draw(p0)]], "density": [[el, draw(p0)]],
            "pair": [[el, el, {"ranges": [{"m": None, "s": None, "body": draw(pos)}]}]],
            "species": [], "grid": draw(gen.eam_grid()), "title": draw(st.sampled_from(["", "Title", "U3 potential"]))}


@st.composite
def _node_case(draw):
    """break points exactly on rows i*cutoff/(nr-1) (GULP, spreadsheets) or i*step (ADP)"""
    target = draw(st.sampled_from(["GULP", "GULP", "GULP", "excel", "excel_eam", "excel_eam_fs", "eam_adp"]))
    if target in ("GULP", "excel"):
        m = draw(_pair_case(target))
        cutoff, nr = m["cutoff"], max(4, m["nr"])
        if target == "GULP":
            nr = draw(st.sampled_from([nr, 41, 61, 101, 127]))
        m["nr"] = nr
        for ent in m["pair"]:
            ks = draw(st.lists(st.integers(1, nr - 1), min_size=2, max_size=3, unique=True))
            ent[2] = draw(gen.node_break_potdef([float(k) * cutoff / float(nr - 1) for k in ks]))
        m["pair"] = [list(e) for e in m["pair"]]
        m["node_breaks"] = True
        return m
    m = draw(_eam_case(target))
    if m["grid"]["nr"] < 3 or m["grid"]["nrho"] < 3:
        m["grid"]["nr"] += 3
        m["grid"]["nrho"] += 3
    return eamtab.with_node_breaks(draw, m, "i*step" if target == "eam_adp" else "i*total/(n-1)")


@st.composite
def _rewrite(draw, target):
    """GULP / ADP / funcfl written again from the same objects after one function was re-parametrised"""
    if target == "GULP":
        m = draw(_pair_case("GULP"))
        m["route"] = draw(st.sampled_from(["class", "class", "writePotentials"]))
        m["pair"] = [[a, b, pd] for a, b, pd in m["pair"]]
    elif target == "eam_adp":
        m = draw(_eam_case("eam_adp"))
        m["route"] = "class"
    else:
        m = draw(_funcfl_case())
    m["rewrite"] = draw(rewrite.plan(m))
    if m.get("route") == "class" and draw(st.integers(0, 2)) > 0:
        m["rewrite"]["same_object"] = True          # the tabulation object itself is written again
    if target == "funcfl":
        m["rewrite"]["ks"] = [abs(k) for k in m["rewrite"]["ks"]]      # the format stores sqrt(r*phi): phi stays >= 0
        if any(a == b for a, b in zip(m["rewrite"]["ks"], m["rewrite"]["ks"][1:])):
            m["rewrite"]["ks"] = [1.0, 2.0]
    return m


def strategy(tier):
    return _pair_case("GULP")


def strata(tier):
    return [("GULP", _pair_case("GULP"), 3), ("excel", _pair_case("excel"), 2), ("eam_adp", _eam_case("eam_adp"), 3),
            ("excel_eam", _eam_case("excel_eam"), 2), ("excel_eam_fs", _eam_case("excel_eam_fs"), 2),
            ("funcfl", _funcfl_case(), 3), ("rewrite:GULP", _rewrite("GULP"), 1), ("rewrite:eam_adp", _rewrite("eam_adp"), 0.7),
            ("rewrite:funcfl", _rewrite("funcfl"), 0.6), ("break_on_row", _node_case(), 3)]


def budget(tier):
    if tier == "quick":
        return {"examples": 165}
    return {"examples": 700, "shards": 16}


def _potable(text, route, target):
    """the table through Configuration.read(...).write(), or through potable's own main() writing into an
    output path that already holds a longer file"""
    if route == "potable":
        return libroute.write_text(libroute.read_text(text))
    binary = target.startswith("excel")
    res = libroute.run_potable_main([], text, outname="out.xlsx" if binary else "out.tab")
    if res["rc"] != 0 or res["out"] is None:
        raise RuntimeError("potable main() failed: rc=%r %s" % (res["rc"], res["stderr"][-300:]))
    return res["out"] if binary else res["out"].decode()


# ---- GULP -----------------------------------------------------------------
def _check_gulp(m, cls):
    cutoff, nr, route = m["cutoff"], m["nr"], m["route"]
    ctx = pairtab.potable_text(m, "GULP", {"cutoff": cutoff, "nr": nr})
    rk = "potable" if route in ("potable", "main") else "api"
    ref = model.Ref(m["env"])
    step = cutoff / float(nr - 1)
    want = []
    for a, b, pd in m["pair"]:
        pd = pairtab.for_route(pd, rk)
        want.append((a, b, pd, [None if eamtab.near_boundary(ref, pd, i * cutoff / float(nr - 1)) else
                                eamtab.ref_value(ref, pd, i * cutoff / float(nr - 1)) for i in range(nr)]))
    if route in ("potable", "main"):
        out = _potable(ctx, route, m["target"])
    else:
        rt = m.get("_rt")
        pots = rt["objs"] if rt else pairtab.api_potentials(m, m.get("container", "list"))
        cls.append("container:" + (m.get("container", "list") if not rt else "list"))
        fp = io.StringIO()
        if route == "class":
            tab = (rt or {}).get("tab") or GULP_PairTabulation(pots, cutoff, nr)
            if rt and rt["one"]:
                rt["tab"] = tab
            tab.write(fp)
        else:
            ap.writePotentials("GULP", pots, cutoff, nr, fp)
        out = fp.getvalue()
    try:
        blocks = parsers.gulp(out)
    except parsers.FormatError as e:
        return [("gulp:format", "%s\n%s" % (e, ctx))]
    v = []
    if len(blocks) != len(want):
        return [("gulp:block_count", "%d spline blocks for %d potentials\n%s" % (len(blocks), len(want), ctx))]
    for blk, (a, b, pd, vals) in zip(blocks, want):
        if (blk["a"], blk["b"]) not in ((a, b), (b, a)):
            v.append(("gulp:labels", "block %s %s for potential %s-%s" % (blk["a"], blk["b"], a, b)))
        if abs(blk["cutoff"] - cutoff) > 1e-12 * cutoff:
            v.append(("gulp:cutoff", "cutoff %r, expected %r" % (blk["cutoff"], cutoff)))
        if len(blk["rows"]) != nr:
            v.append(("gulp:rows", "%d rows, expected nr=%d\n%s" % (len(blk["rows"]), nr, ctx)))
            continue
        for i, (e, r) in enumerate(blk["rows"]):
            if abs(r - i * cutoff / float(nr - 1)) > 1.0000001e-10 + 1e-12 * cutoff:
                v.append(("gulp:separation", "row %d separation %r, expected %r\n%s" % (i, r, i * cutoff / float(nr - 1), ctx)))
                break
            if vals[i] is not None and not compare.close(("f", 10), e, vals[i]):
                v.append(("gulp:energy", "%s-%s row %d (r=%r): %r, model %r\n%s" % (a, b, i, r, e, vals[i].v, ctx)))
                break
    return v


# ---- Excel ----------------------------------------------------------------
def _col_check(v, bucket, sheet, name, col, pd, ref, n, total, ctx):
    """rows of a spreadsheet sit at i*total/(n-1), total = cutoff or cutoff_rho (the property's own formula)"""
    for i in compare.sample_rows(n):
        x = i * total / float(n - 1)
        if eamtab.near_boundary(ref, pd, x):
            continue
        w = eamtab.ref_value(ref, pd, x)
        got = col[i]
        if got is None or libroute.realnum(got) is None or not compare.close(XL, float(got), w):
            v.append((bucket, "sheet %s column %s row %d (x=%r): %r, model %r\n%s" % (sheet, name, i, x, got, w.v, ctx)))
            return


def _sheet(wb, name, first, labels, n, total, v, ctx):
    if name not in wb:
        v.append(("excel:sheet_missing", "no sheet %r in %r" % (name, sorted(wb))))
        return None
    sh = wb[name]
    hdr = sh["header"]
    if not hdr or hdr[0] != first or len(hdr) != len(labels) + 1:
        v.append(("excel:header", "sheet %s header %r, expected %r + %d columns\n%s" % (name, hdr, first, len(labels), ctx)))
        return None
    if len(sh["rows"]) != n:
        v.append(("excel:rows", "sheet %s has %d rows, grid has %d\n%s" % (name, len(sh["rows"]), n, ctx)))
        return None
    cols = dict((h, [row[c] for row in sh["rows"]]) for c, h in enumerate(hdr))
    for i in range(n):
        x = cols[first][i]
        want = i * total / float(n - 1)
        if x is None or abs(x - want) > 1e-12 * max(1.0, abs(want)):
            v.append(("excel:first_column", "sheet %s row %d %s=%r, expected %r\n%s" % (name, i, first, x, want, ctx)))
            return None
    return cols


def _check_excel_pair_sheet(wb, m, rk, cutoff, nr, v, ctx):
    ref = model.Ref(m["env"])
    labels = {}
    for a, b, pd in m["pair"]:
        labels[frozenset((a, b))] = (a, b, pairtab.for_route(pd, rk))
    cols = _sheet(wb, "Pair", "r", labels, nr, cutoff, v, ctx)
    if cols is None:
        return
    for name, col in cols.items():
        if name == "r":
            continue
        parts = name.split("-")
        key = frozenset(parts)
        if len(parts) != 2 or key not in labels:
            v.append(("excel:unknown_column", "Pair column %r does not name a potential of the model\n%s" % (name, ctx)))
            continue
        _col_check(v, "excel:pair_value", "Pair", name, col, labels[key][2], ref, nr, cutoff, ctx)


def _check_excel_pair(m, cls):
    cutoff, nr, route = m["cutoff"], m["nr"], m["route"]
    # two potentials for the same unordered pair share one column label: outside this property (C20)
    keys = [frozenset((a, b)) for a, b, _ in m["pair"]]
    ctx = pairtab.potable_text(m, "excel", {"cutoff": cutoff, "nr": nr})
    rk = "potable" if route in ("potable", "main") else "api"
    ref = model.Ref(m["env"])
    for a, b, pd in m["pair"]:
        for i in compare.sample_rows(nr):
            eamtab.ref_value(ref, pairtab.for_route(pd, rk), i * cutoff / float(nr - 1))
    if route in ("potable", "main"):
        out = _potable(ctx, route, m["target"])
    else:
        fp = io.BytesIO()
        Excel_PairTabulation(pairtab.api_potentials(m), cutoff, nr).write(fp)
        out = fp.getvalue()
    v = []
    wb = parsers.xlsx(out)
    if set(wb) != {"Pair"}:
        v.append(("excel:sheets", "sheets %r, expected only 'Pair'" % (sorted(wb),)))
    _check_excel_pair_sheet(wb, m, rk, cutoff, nr, v, ctx)
    return v


def _check_excel_eam(m, cls):
    fs = m["target"] == "excel_eam_fs"
    route = m["route"]
    ctx = eamtab.potable_text(m, m["target"])
    g = m["grid"]
    nr, dr, nrho, drho = eamtab.grids(m)
    ref = model.Ref(m["env"])
    from checks import c05_tabeam
    c05_tabeam._domain(m, ref)
    rk = "potable" if route in ("potable", "main") else "api"
    if route in ("potable", "main"):
        out = _potable(ctx, route, m["target"])
    else:
        pairs, eams = eamtab.api_objects(m)
        cl = Excel_FinnisSinclair_EAMTabulation if fs else Excel_EAMTabulation
        fp = io.BytesIO()
        cl(pairs, eams, g["cutoff"], g["nr"], g["cutoff_rho"], g["nrho"]).write(fp)
        out = fp.getvalue()
    v = []
    wb = parsers.xlsx(out)
    if set(wb) != {"Pair", "EAM-Density", "EAM-Embed"}:
        v.append(("excel:sheets", "sheets %r" % (sorted(wb),)))
    els = sorted(eamtab.element_set(m))
    lk = eamtab.lookup(m)
    mm = dict(m, pair=[[a, b, pd] for a, b, pd in m["pair"]])
    # only pairs between any species are listed as given (foreign species included)
    _check_excel_pair_sheet(wb, mm, rk, g["cutoff"], nr, v, ctx)
    emb = _sheet(wb, "EAM-Embed", "rho", els, nrho, g["cutoff_rho"], v, ctx)
    if emb is not None:
        if set(emb) - {"rho"} != set(els):
            v.append(("excel:embed_columns", "EAM-Embed columns %r, elements %r\n%s" % (sorted(emb), els, ctx)))
        else:
            for e in els:
                _col_check(v, "excel:embed_value", "EAM-Embed", e, emb[e], lk["embed"].get(e), ref, nrho, g["cutoff_rho"], ctx)
    if fs:
        names = ["%s->%s" % (a, b) for a in els for b in els]
    else:
        names = els
    dens = _sheet(wb, "EAM-Density", "r", names, nr, g["cutoff"], v, ctx)
    if dens is not None:
        if set(dens) - {"r"} != set(names):
            v.append(("excel:density_columns", "EAM-Density columns %r, expected %r\n%s" % (sorted(dens), names, ctx)))
        else:
            for nme in names:
                pd = lk["density_fs"].get(tuple(nme.split("->"))) if fs else lk["density"].get(nme)
                _col_check(v, "excel:density_value", "EAM-Density", nme, dens[nme], pd, ref, nr, g["cutoff"], ctx)
    return v


# ---- ADP --------------------------------------------------------------------
def _check_adp(m, cls):
    route = m["route"]
    ctx = eamtab.potable_text(m, "eam_adp")
    g = m["grid"]
    nr, dr, nrho, drho = eamtab.grids(m)
    ref = model.Ref(m["env"])
    from checks import c05_tabeam
    c05_tabeam._domain(m, ref)
    for key in ("dipole", "quadrupole"):
        for a, b, pd in m[key]:
            for i in compare.sample_rows(nr):
                eamtab.ref_value(ref, pd, i * dr)
    els = eamtab.element_set(m)
    npairs = len(els) * (len(els) + 1) // 2
    for key in ("dipole", "quadrupole"):
        if len(set(frozenset((a, b)) for a, b, _ in m[key])) < npairs:
            cls.append("adp:undeclared_multipole")
    for key in ("dipole", "quadrupole"):
        for a, b, pd in m[key]:
            try:
                if a in els and b in els and abs(eamtab.ref_value(ref, pd, 0.0).v) > 1e-6:
                    cls.append("adp:multipole_nonzero_at_origin")
            except DomainError:
                pass
    api_order = None
    v = []
    if route in ("potable", "main"):
        out = _potable(ctx, route, m["target"])
    else:
        rt = m.get("_rt")
        pairs, eams, dip, quad = rt["objs"] if rt else eamtab.api_objects(m)
        api_order = [e.species for e in eams]
        fp = io.StringIO()
        tab = (rt or {}).get("tab") or ADP_EAMTabulation(pairs, eams, dip, quad, g["cutoff"], g["nr"], g["cutoff_rho"], g["nrho"])
        if rt and rt["one"]:
            rt["tab"] = tab
        tab.write(fp)
        out = fp.getvalue()
        fp2 = io.StringIO()
        ap.writeSetFL(nrho, drho, nr, dr, eams, pairs, out=fp2)
        if not out.startswith(fp2.getvalue()):
            v.append(("adp:setfl_prefix", "the ADP file does not start with the setfl output of the same model\n%s" % ctx))
    v.extend(("adp:" + b, d) for b, d in c03_setfl.verify_setfl(m, out, api_order, ctx, adp=True))
    return v


# ---- funcfl -----------------------------------------------------------------
def _check_funcfl(m, cls):
    nr, dr, nrho, drho = eamtab.grids(m)
    ref = model.Ref(m["env"])
    el = m["elements"][0]
    emb_pd, dens_pd, pair_pd = m["embed"][0][1], m["density"][0][1], m["pair"][0][2]
    phis = [eamtab.ref_value(ref, pair_pd, i * dr) for i in range(nr)]
    if any(p.v < 0 for p in phis):
        raise DomainError("negative pair potential")
    embs = [eamtab.ref_value(ref, emb_pd, i * drho) for i in range(nrho)]
    denss = [eamtab.ref_value(ref, dens_pd, i * dr) for i in range(nr)]
    pairs, eams = m["_rt"]["objs"] if m.get("_rt") else eamtab.api_objects(m)
    fp = io.StringIO()
    ap.writeFuncFL(nrho, drho, nr, dr, eams, pairs, out=fp, title=m["title"])
    out = fp.getvalue()
    ctx = "writeFuncFL(nrho=%r, drho=%r, nr=%r, dr=%r) for\n%s" % (nrho, drho, nr, dr, eamtab.potable_text(m, "setfl"))
    try:
        t = parsers.funcfl(out)
    except parsers.FormatError as e:
        return [("funcfl:format", "%s\n%s" % (e, ctx))]
    v = []
    Z, mass, a, lat = eamtab.metadata(m, el)
    if t["title"] != m["title"]:
        v.append(("funcfl:title", "title %r, given %r" % (t["title"], m["title"])))
    near = lambda x, y: abs(x - y) <= 4 * 2.3e-16 * abs(y)      # noqa: E731  (the header is free format: nothing forces rounding)
    if t["Z"] != Z or not near(t["mass"], mass) or not near(t["a"], a) or t["lattice"] != lat:
        v.append(("funcfl:metadata", "(%r %r %r %r) expected (%r %r %r %r)" % (t["Z"], t["mass"], t["a"], t["lattice"], Z, mass, a, lat)))
    if t["nrho"] != nrho or t["nr"] != nr or not near(t["drho"], drho) or not near(t["dr"], dr) \
            or not near(t["cutoff"], dr * (nr - 1)):
        v.append(("funcfl:header_grid", "header %r %r %r %r %r does not describe the grid tabulated (%r, %r, %r, %r, cutoff %r)\n%s" % (
            t["nrho"], t["drho"], t["nr"], t["dr"], t["cutoff"], nrho, drho, nr, dr, dr * (nr - 1), ctx)))
    for i, w in enumerate(embs):
        if not eamtab.near_boundary(ref, emb_pd, i * drho) and not compare.close(XL, t["embed"][i], w):
            v.append(("funcfl:embed", "F(%r): %r, model %r\n%s" % (i * drho, t["embed"][i], w.v, ctx)))
            break
    for i, w in enumerate(denss):
        if not eamtab.near_boundary(ref, dens_pd, i * dr) and not compare.close(XL, t["density"][i], w):
            v.append(("funcfl:density", "rho(%r): %r, model %r\n%s" % (i * dr, t["density"][i], w.v, ctx)))
            break
    for i, w in enumerate(phis):
        r = i * dr
        if r == 0 or eamtab.near_boundary(ref, pair_pd, r):
            continue
        z = t["zr"][i]
        got = EN(z, abs(z)) * EN(z, abs(z)) * 27.2 * 0.529 / EN(r, 4 * r)
        if not abs(got.v - w.v) <= 256 * 2.3e-16 * (got.e + w.e) + 1e-14 * abs(w.v) + 1e-300:
            v.append(("funcfl:effective_charge", "r=%r: Z(r)^2*27.2*0.529/r = %r, phi(r) = %r\n%s" % (r, got.v, w.v, ctx)))
            break
    return v


def check_case(m):
    target = m["target"]
    cls = ["target:" + target, "route:" + m["route"]] + (["break_on_row"] if m.get("node_breaks") else [])
    fn = {"GULP": _check_gulp, "excel": _check_excel_pair, "eam_adp": _check_adp, "excel_eam": _check_excel_eam,
          "excel_eam_fs": _check_excel_eam, "funcfl": _check_funcfl}[target]
    if target in ("excel", "excel_eam", "excel_eam_fs"):
        keys = [frozenset((a, b)) for a, b, _ in m["pair"]]
        if len(set(keys)) != len(keys):
            return {"v": [], "cls": cls, "nt": False, "skip": True}
    try:
        if m.get("rewrite"):
            rw = m["rewrite"]
            one = rw["same_object"] and m["route"] == "class"
            cls += ["rewrite:%d_writes" % len(rw["ks"]), "rewrite:" + ("one_object" if one else "same_callables")]
            w = rewrite.Wrapper(m, rw)
            objs = pairtab.api_potentials(m, wrap=w) if target == "GULP" else eamtab.api_objects(m, wrap=w)
            rt = {"objs": objs, "one": one}
            v = []
            for n, k in enumerate(rw["ks"]):
                w.set(k)
                mm = rewrite.scaled_model(m, rw, k)
                mm["_rt"] = rt
                vv = fn(mm, [])
                v += [(("rewrite:" + bk) if n else bk, "%s\n%s" % (rewrite.describe(m, rw, n, k), d)) for bk, d in vv]
                if v:
                    break
            return {"v": v, "cls": cls, "nt": True}
        v = fn(m, cls)
    except DomainError:
        return {"v": [], "cls": cls, "nt": False, "skip": True}
    except Exception as e:
        return {"v": [("%s:exception:%s@%s" % (target, type(e).__name__, libroute.innermost_atsim_frame(e)), "%r" % (e,))],
                "cls": cls, "nt": False}
    nfun = len(m.get("pair", [])) + len(m.get("embed", [])) + len(m.get("density", m.get("density_fs", [])))
    return {"v": v, "cls": cls, "nt": nfun >= 2 or "adp:undeclared_multipole" in cls}
