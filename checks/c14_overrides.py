"""C14 -- --override-item / --add-item / --remove-item equal editing the file by hand.

Generated: a whole model for any target plus an operation list: overrides (also
repeated for one key), removals (also of the last key of a section), additions
(to existing and new sections), on every kind of section incl. [Table-Form:NAME],
[Species], [Variables]-free files; keys spelled with whitespace variants; invalid
operations (override/remove of a missing item, addition of an existing one).
Routes: ConfigParser(overrides=, additional=) | potable's _make_config_parser |
the real CLI.
Oracle: the section list edited by hand in the documented order (overrides,
later wins -> removals -> additions) rendered and tabulated normally: identical
output (or both refused); invalid operations are configuration errors;
--list-items / --list-item-labels / --item-value report the items of the
edited file exactly once each.
"""
import io

from hypothesis import strategies as st

from vlib import bootstrap, gen, libroute, anymodel

bootstrap.activate()
from atsim.potentials.config import ConfigParser, ConfigParserOverrideTuple  # noqa: E402
from atsim.potentials.config._common import ConfigurationException  # noqa: E402
from atsim.potentials.tools.potable import _make_config_parser  # noqa: E402
from atsim.potentials.tools.potable import _query_actions  # noqa: E402

ID = "C14"
LEVEL = "exploration"
RULE = ("Hypothesis builds a whole model for a random target and 1..5 operations chosen against its actual "
        "section list (valid: override an existing key with a value taken from a compatible entry, remove a key, "
        "add a new key; invalid: override/remove a missing key or section, add an existing key), with key "
        "spellings perturbed by whitespace. Non-trivial = >= 2 operations of which one changes the tabulated "
        "output, or a removal of a section's last key, or an invalid operation; distinct = canonical JSON.")
ASSUMPTIONS = [
    "argparse loses the relative order of different option kinds: the order applied is overrides (later wins), "
    "removals, additions; two operations of different kinds never name the same key",
    "removing the last key of a section is hand-edited as deleting the line and the then-empty section header",
    "values containing line continuations are not used for --list-items comparisons",
]
REQUIRED = {"override_nearly_equal": 4, "both_directions_of_a_pair": 4, "padded_value:main": 5, "padded_value:ConfigParser": 5, "colon_value:make_config_parser": 8, "invalid:add_twice:make_config_parser": 2, "invalid:add_twice_ws:make_config_parser": 2, "remove_then_add": 5, "override_empty_value": 3, "same_key_two_sections": 4, "valid": 80, "invalid": 30, "op:override": 60, "op:remove": 40, "op:add": 40, "whitespace_key": 40,
            "removes_last_key": 5, "repeated_override": 10, "route:ConfigParser": 30, "route:make_config_parser": 30,
            "section:Table-Form": 5, "section:Species": 5, "listing": 40}


def _ws(draw, key):
    """a whitespace variant of a key"""
    how = draw(st.sampled_from(["same", "same", "spaces", "tab", "around", "nbsp"]))
    if how == "same":
        return key
    if how == "around":
        return " " + key + "  "
    out = []
    for ch in key:
        if ch in "-(),>.":
            out.append({"spaces": " ", "tab": "\t", "nbsp": "\u00a0"}[how] + ch + " ")
        else:
            out.append(ch)
    return "".join(out).strip() if how == "spaces" else "".join(out)


def _pad(draw, val):
    """the value as a user may type it after the '=': with blanks around it (not part of the value, as in a file)"""
    how = draw(st.sampled_from(["", "", "", "lead", "trail", "both"]))
    if not val or "\n" in val:
        return val
    return {"": val, "lead": " " + val, "trail": val + "  ", "both": "  " + val + " "}[how]


INVALID = ["override_missing_key", "override_missing_section", "remove_missing_key", "add_existing", "add_existing_ws", "add_twice",
           "add_twice_ws", "remove_twice", "override_bad_placeholder", "add_bad_placeholder", "empty_section", "empty_key",
           "label_without_equals", "label_without_colon", "add_to_section_differing_in_whitespace"]
NOTES = ["Notes", [["author", "someone"], ["comment", "free text 1"], ["scale", "2.5"]]]


def _secs(case_or_model, notes):
    secs = anymodel.sections_of(case_or_model)
    if notes:
        secs.append([NOTES[0], [list(e) for e in NOTES[1]]])
    return secs


@st.composite
def _case(draw, targets=None, invalid=False, repeat=False, cross=False, route=None, colon=False):
    m = draw(gen.any_model(targets, 2 if cross == "directions" else 1, 3, depth=0))
    notes = draw(st.booleans()) or colon
    secs = _secs(m, notes)
    nops = draw(st.integers(1, 5))
    ops = []
    used = set()
    keys = [(n, k, v) for n, ents in secs for k, v in ents]
    editable = [(n, k, v) for n, k, v in keys if n not in ("Tabulation",) or k in ("nr", "cutoff", "nrho", "cutoff_rho")]
    for i in range(nops):
        kind = draw(st.sampled_from(["override", "override", "remove", "add", "remove_then_add", "override_empty", "override_nearly_equal"] +
                                    (["colon_value"] * 6 if colon else [])))
        if kind == "colon_value":
            # values that contain a colon: the documented cross-section place-holder, free text
            which = draw(st.sampled_from(["placeholder", "text_override", "text_add"]))
            if which == "placeholder":
                cand = [(n, k, v) for n, k, v in keys if n in ("Pair", "EAM-Embed", "EAM-Density") and (n, k) not in used]
                if not cand:
                    continue
                n, k, v = draw(st.sampled_from(cand))
                ops.append({"op": "override", "section": n, "key0": k, "key": _ws(draw, k), "value": "as.constant ${Notes:scale}", "colon": True})
            elif which == "text_override":
                n, k = "Notes", draw(st.sampled_from(["author", "comment"]))
                if (n, k) in used:
                    continue
                ops.append({"op": "override", "section": n, "key0": k, "key": k, "value": "see: appendix %d, part b:2" % draw(st.integers(1, 9)), "colon": True})
            else:
                n, k = "Notes", draw(st.sampled_from(["url", "ratio"]))
                if (n, k) in used:
                    continue
                ops.append({"op": "add", "section": n, "key0": k, "key": k, "value": draw(st.sampled_from(["http://example.org/a:b", "1:2"])), "colon": True})
            used.add((n, k))
            continue
        if kind == "remove_then_add":
            # an item removed and added again with another value: removals come before additions
            cand = [(n, k, v) for n, k, v in keys if (n, k) not in used and n in ("Pair", "Species", "Notes")]
            if not cand:
                continue
            n, k, v = draw(st.sampled_from(cand))
            newv = {"Pair": "as.constant %d" % draw(st.integers(1, 9)), "Species": "%d" % draw(st.integers(1, 9)),
                    "Notes": "changed %d" % draw(st.integers(1, 9))}[n]
            if n == "Species" and not k.endswith("charge"):
                newv = v
            ops.append({"op": "remove", "section": n, "key0": k, "key": _ws(draw, k)})
            ops.append({"op": "add", "section": n, "key0": k, "key": _ws(draw, k), "value": newv, "readd": True})
            used.add((n, k))
            continue
        if kind == "override_nearly_equal":
            # an override by a number that differs from the present one in its last digits only (a fit converging):
            # still an edit - the listing shows the new text, the table is that of the new number
            def is_float(t):
                try:
                    return "." in t and float(t) == float(t) and float(t) != 0.0 and len(t.split()) == 1
                except ValueError:
                    return False
            cand = [(n, k, v) for n, k, v in keys if (n, k) not in used and is_float(v.strip()) and n in ("Tabulation", "Species", "Notes")]
            if not cand:
                continue
            n, k, v = draw(st.sampled_from(cand))
            newv = repr(float(v) * (1.0 + draw(st.sampled_from([3e-11, 2e-12, -4e-11]))))
            if newv.strip() == v.strip():
                continue
            ops.append({"op": "override", "section": n, "key0": k, "key": _ws(draw, k), "value": newv, "nearly_equal": True})
            used.add((n, k))
            continue
        if kind == "override_empty":
            cand = [(n, k, v) for n, k, v in keys if n == "Notes" and (n, k) not in used]
            if not cand:
                continue
            n, k, v = draw(st.sampled_from(cand))
            ops.append({"op": "override", "section": n, "key0": k, "key": k, "value": ""})
            used.add((n, k))
            continue
        if kind == "override":
            n, k, v = draw(st.sampled_from(editable))
            if (n, k) in used and not any(o["op"] == "override" and (o["section"], o["key0"]) == (n, k) for o in ops):
                continue
            # a value from another entry of the same section (same syntax), else the same value
            pool = [vv for nn, kk, vv in keys if nn == n and kk != k and nn not in ("Tabulation", "Species")
                    and not nn.startswith("Table-Form")]
            if n == "Tabulation":
                val = str(draw(st.integers(2, 12)) * (4 if m["target"] in ("DLPOLY", "DL_POLY") and k == "nr" else 1)) \
                    if k in ("nr", "nrho") else "%s" % draw(gen.fl(0.5, 9.0))
            elif pool:
                val = draw(st.sampled_from(pool))
            else:
                val = v
            ops.append({"op": "override", "section": n, "key0": k, "key": _ws(draw, k), "value": _pad(draw, val)})
            used.add((n, k))
        elif kind == "remove":
            cand = [(n, k, v) for n, k, v in keys if (n, k) not in used and n in (
                "Pair", "EAM-ADP-Dipole", "EAM-ADP-Quadrupole", "Species", "Potential-Form") or
                (n == "EAM-Density" and "->" in k and (n, k) not in used)]
            cand = [c for c in cand if (c[0], c[1]) not in used]
            if not cand:
                continue
            n, k, v = draw(st.sampled_from(cand))
            ops.append({"op": "remove", "section": n, "key0": k, "key": _ws(draw, k)})
            used.add((n, k))
        else:
            sec = draw(st.sampled_from(["Pair", "Species", "Notes", "Pair", "Variables"]))
            if sec == "Pair":
                k, val = "%s-%s" % (draw(st.sampled_from(["Xa", "Xb"])), draw(st.sampled_from(["Ya", "Yb"]))), \
                    "as.constant %d" % draw(st.integers(1, 9))
            elif sec == "Species":
                k, val = "%s.charge" % draw(st.sampled_from(["Xa", "Xb", "Al"])), "%d" % draw(st.integers(-3, 3))
            elif sec == "Variables":
                k, val = draw(st.sampled_from(["unusedvar", "extra_v"])), "%d" % draw(st.integers(0, 9))
            else:
                k, val = draw(st.sampled_from(["author", "comment"])), "text %d" % draw(st.integers(0, 9))
            if (sec, k) in used or any(nn == sec and "".join(kk.split()) == k for nn, kk, _ in keys):
                continue
            ops.append({"op": "add", "section": sec, "key0": k, "key": _ws(draw, k), "value": _pad(draw, val)})
            used.add((sec, k))
    if invalid:
        why = invalid if isinstance(invalid, str) else draw(st.sampled_from(INVALID))
        n, k, v = draw(st.sampled_from(keys))
        if why == "override_missing_key":
            bad = {"op": "override", "section": n, "key0": k + "_x", "key": k + "_x", "value": v}
        elif why == "override_missing_section":
            bad = {"op": "override", "section": "Nowhere", "key0": k, "key": k, "value": v}
        elif why == "remove_missing_key":
            bad = {"op": "remove", "section": n, "key0": "zz" + k, "key": "zz" + k}
        elif why == "override_bad_placeholder":
            # the same text typed into the file is a configuration error (malformed ${...})
            bad = {"op": "override", "section": n, "key0": k, "key": k, "value": draw(st.sampled_from(["as.buck ${A 2 3", "as.constant $x", "${"]))}
        elif why == "add_bad_placeholder":
            bad = {"op": "add", "section": "Pair", "key0": "Xq-Zq", "key": "Xq-Zq", "value": draw(st.sampled_from(["as.buck ${A 2 3", "as.constant $x"]))}
        elif why == "remove_twice":
            # the second removal finds nothing to remove (only expressible through ConfigParser(overrides=...):
            # the command line collapses repeated options for one item)
            cand = [(nn, kk) for nn, kk, _ in keys if (nn, kk) not in used and nn in ("Pair", "Species", "Notes")]
            if cand:
                nn, kk = draw(st.sampled_from(cand))
                ops.append({"op": "remove", "section": nn, "key0": kk, "key": kk})
                ops.append({"op": "remove", "section": nn, "key0": kk, "key": _ws(draw, kk), "invalid": why})
                used.add((nn, kk))
                bad = None
            else:
                bad = {"op": "override", "section": "Nowhere", "key0": k, "key": k, "value": v}
        elif why in ("add_twice", "add_twice_ws"):
            # the same new item added by two options: after the first addition it exists
            first = {"op": "add", "section": "Pair", "key0": "Xq-Yq", "key": "Xq-Yq", "value": "as.constant 3"}
            ops.append(first)
            used.add(("Pair", "Xq-Yq"))
            bad = {"op": "add", "section": "Pair", "key0": "Xq-Yq", "key": "Xq-Yq" if why == "add_twice" else "Xq - Yq",
                   "value": "as.constant 4"}
            bad["invalid"] = why
            ops.append(bad)
            bad = None
        elif why in ("empty_section", "empty_key"):
            # an item needs a section name and a key: '-e :A=6' names nothing (and must not reach [Variables], which is
            # what the INI reader makes of an empty section name)
            op = draw(st.sampled_from(["override", "remove", "add"]))
            if why == "empty_section":
                vk = [kk for nn, kk, _ in keys if nn == "Variables"]
                bad = {"op": op, "section": draw(st.sampled_from(["", " "])), "key0": k, "key": draw(st.sampled_from(vk + [k, "x"])), "value": v}
            else:
                bad = {"op": op, "section": n, "key0": "", "key": draw(st.sampled_from(["", " "])), "value": v}
            bad["key0"] = bad["key"]
        elif why in ("label_without_equals", "label_without_colon"):
            # command-line spellings that are not SECTION_NAME:KEY=VALUE at all
            if why == "label_without_equals":
                bad = {"op": draw(st.sampled_from(["override", "add"])), "section": n, "key0": k, "key": k, "value": v, "raw": "%s:%s" % (n, k)}
            else:
                op = draw(st.sampled_from(["override", "remove", "add"]))
                bad = {"op": op, "section": n, "key0": k, "key": k, "value": v, "raw": k if op == "remove" else "%s=%s" % (k, v)}
                if ":" in bad["raw"].split("=", 1)[0]:
                    bad["raw"] = "nr" if op == "remove" else "nr=5"
        elif why == "add_to_section_differing_in_whitespace":
            # an added item that names an existing section with a blank more ('Pair ', 'Table-Form:my tab'): typed into
            # the file this is a second definition of that section
            secname = draw(st.sampled_from(sorted(set(nn for nn, _, _ in keys))))
            # (the blank goes into the NAME part of 'Table-Form:name': potable finds the section/key boundary of a label
            # from the literal prefix 'Table-Form:', so 'Ta ble-Form:tab1:k' is key 'tab1:k' of an unrelated section)
            cut = (secname.index(":") + 2) if ":" in secname else 2
            variant = draw(st.sampled_from([secname + " ", (secname.replace(":", ": ") if ":" in secname else " " + secname),
                                            secname[:cut] + " " + secname[cut:]]))
            bad = {"op": "add", "section": variant, "key0": "Xq-Zq", "key": "Xq-Zq", "value": "as.constant 7"}
        elif why == "add_existing":
            bad = {"op": "add", "section": n, "key0": k, "key": k, "value": v}
        else:
            bad = {"op": "add", "section": n, "key0": k, "key": " " + k.replace("-", " - ").replace(",", " , ") + " ", "value": v}
        if bad is not None:
            if (bad["section"], bad["key0"]) in used and not bad.get("raw") and why not in ("empty_section", "empty_key"):
                bad = {"op": "override", "section": "Nowhere", "key0": k, "key": k, "value": v}
            bad["invalid"] = why
            ops.insert(draw(st.integers(0, len(ops))), bad)
    if cross == "additions":
        # several additions to one order-sensitive section: they are appended in the order given
        labels = draw(st.permutations(["Xa-Ya", "Xb-Yb", "Xa-Yb", "Xb-Ya", "Xa-Xa", "Yb-Yb"]))[:draw(st.integers(3, 5))]
        ops[:] = [o for o in ops if not (o["op"] == "add" and o["section"] == "Pair")]
        for i, lab in enumerate(labels):
            ops.append({"op": "add", "section": "Pair", "key0": lab, "key": _ws(draw, lab), "value": "as.constant %d" % (i + 1), "many": True})
    elif cross == "directions":
        # both directions of one pair of species in a Finnis-Sinclair density section: A->B and B->A are two items
        den = [(k, v) for n, k, v in keys if n == "EAM-Density" and "->" in k]
        pairs_ = [(k, v) for k, v in den if k.split("->")[0] != k.split("->")[1] and
                  any(k2 == "%s->%s" % tuple(reversed(k.split("->"))) for k2, _ in den)]
        if pairs_:
            k, v = draw(st.sampled_from(pairs_))
            rk = "%s->%s" % tuple(reversed(k.split("->")))
            ops[:] = [o for o in ops if not (o["section"] == "EAM-Density" and o["key0"] in (k, rk))]
            ops.append({"op": "override", "section": "EAM-Density", "key0": k, "key": _ws(draw, k), "value": "as.polynomial 0 %d" % draw(st.integers(1, 9)), "directions": True})
            if draw(st.booleans()):
                ops.append({"op": "override", "section": "EAM-Density", "key0": rk, "key": _ws(draw, rk), "value": "as.polynomial 0 0 0.%d" % draw(st.integers(1, 9))})
            else:
                ops.append({"op": "remove", "section": "EAM-Density", "key0": rk, "key": rk})
    elif cross:
        # the same key in two different sections (an element label in [EAM-Embed] and [EAM-Density]):
        # two options that must not be confused with each other
        emb = [(n, k, v) for n, k, v in keys if n == "EAM-Embed"]
        den = dict((k, v) for n, k, v in keys if n == "EAM-Density")
        both = [(k, v) for _, k, v in emb if k in den]
        if both:
            k, v = draw(st.sampled_from(both))
            ops[:] = [o for o in ops if not (o["key0"] == k and o["section"] in ("EAM-Embed", "EAM-Density"))]
            ops.append({"op": "override", "section": "EAM-Embed", "key0": k, "key": k, "value": "as.polynomial 0 %d" % draw(st.integers(1, 9))})
            second = draw(st.sampled_from(["override", "remove"]))
            if second == "override" or len(den) < 2:
                ops.append({"op": "override", "section": "EAM-Density", "key0": k, "key": _ws(draw, k), "value": "as.constant %d" % draw(st.integers(1, 9))})
            else:
                ops.append({"op": "remove", "section": "EAM-Density", "key0": k, "key": k})
    if repeat:
        ov = [o for o in ops if o["op"] == "override" and o["section"] in ("Pair", "EAM-Embed", "EAM-Density")]
        if ov:
            o = draw(st.sampled_from(ov))
            pool = [vv for nn, kk, vv in keys if nn == o["section"] and vv != o["value"]] or \
                [vv for nn, kk, vv in keys if nn == o["section"]]
            same_spelling = draw(st.booleans())
            ops.append(dict(o, key=o["key"] if same_spelling else _ws(draw, o["key0"]), value=draw(st.sampled_from(pool))))
    if not ops:
        n, k, v = draw(st.sampled_from(editable))
        ops.append({"op": "override", "section": n, "key0": k, "key": _ws(draw, k), "value": v})
    route = route or (draw(st.sampled_from(["ConfigParser", "make_config_parser", "main"])) if not cross else
                      draw(st.sampled_from(["make_config_parser", "main"])))
    if any(o.get("invalid") == "remove_twice" for o in ops):
        route = "ConfigParser"
    if any(o.get("raw") is not None for o in ops) and route == "ConfigParser":
        route = "main"          # only a command line can spell an item wrongly
    return {"model": m, "ops": ops, "route": route, "notes": notes}


def strategy(tier):
    return _case()


def strata(tier):
    return [("valid:pair", _case(gen.PAIR_TARGETS), 3), ("valid:eam", _case(sorted(gen.EAM_TARGETS)), 4),
            ("invalid", _case(None, True), 1), ("repeated", _case(None, False, True), 2),
            ("colon_values:ConfigParser", _case(None, route="ConfigParser", colon=True), 0.5),
            ("colon_values:make_config_parser", _case(None, route="make_config_parser", colon=True), 1),
            ("same_key_two_sections", _case(["setfl", "DL_POLY_EAM", "excel_eam", "eam_adp", "lammps_eam_alloy"], False, False, True), 2),
            ("both_directions", _case(["setfl_fs", "DL_POLY_EAM_fs", "excel_eam_fs"], False, False, "directions"), 1),
            ("several_additions", _case(["LAMMPS", "GULP", "DL_POLY"], False, False, "additions"), 1)] + [
            ("invalid:%s:%s" % (w, r), _case(None, w, route=r), 0.3 if w.startswith(("empty_", "label_")) else 0.15)
            for w in INVALID for r in ("ConfigParser", "make_config_parser", "main")
            if not (w.startswith("label_") and r == "ConfigParser")
            if not (w == "remove_twice" and r == "make_config_parser")]


def budget(tier):
    if tier == "quick":
        return {"examples": 260}
    return {"examples": 900, "shards": 16}


def _norm(k):
    return "".join(k.split())


def validate(case):
    try:
        m = case["model"]
        g = m["grid"]
        if g["nr"] < 3 or g.get("nrho", 3) < 2 or not case["ops"]:
            return False
        secs = _secs(m, case.get("notes"))
        return all(v.strip() for _, e in secs for _, v in e) and all(e for n, e in secs if n != "Pair")
    except Exception:
        return False


def hand_edit(secs, ops):
    """apply the operations by hand in the documented order; returns (sections, None) or (None, reason)"""
    secs = [[n, [[k, v] for k, v in e]] for n, e in secs]

    def find(sec):
        for s in secs:
            if s[0] == sec:
                return s
        return None
    stats = {"removes_last_key": False}
    ordered = [o for o in ops if o["op"] == "override"] + [o for o in ops if o["op"] == "remove"] + \
        [o for o in ops if o["op"] == "add"]
    for o in ordered:
        if o.get("raw") is not None:
            return None, "argument %r is not of the form SECTION_NAME:KEY[=VALUE]" % o["raw"], stats
        if not o["section"].strip() or not o["key"].strip():
            return None, "item without section name or key: %r" % _label(o), stats
        if find(o["section"]) is None and any(_norm(s_[0]) == _norm(o["section"]) and s_[0] != o["section"] for s_ in secs + [["Variables", []]]):
            return None, "section [%s] differs only in whitespace from an existing one" % o["section"], stats
        s = find(o["section"])
        idx = None
        if s is not None:
            for i, (k, v) in enumerate(s[1]):
                if _norm(k) == _norm(o["key"]):
                    idx = i
        if o["op"] == "override":
            if idx is None:
                return None, "override of missing item %s:%s" % (o["section"], o["key"]), stats
            s[1][idx][1] = o["value"]
        elif o["op"] == "remove":
            if idx is None:
                return None, "removal of missing item %s:%s" % (o["section"], o["key"]), stats
            del s[1][idx]
            if not s[1]:
                secs.remove(s)
                stats["removes_last_key"] = True
        else:
            if idx is not None:
                return None, "addition of existing item %s:%s" % (o["section"], o["key"]), stats
            if s is None:
                s = [o["section"], []]
                secs.append(s)
            # a key typed into a file starts its line: leading blanks would make it a continuation line
            s[1].append([o["key"].strip(), o["value"]])
    return secs, None, stats


def _tuples(ops):
    over = [ConfigParserOverrideTuple(o["section"], o["key"], o.get("value")) for o in ops if o["op"] == "override"] + \
           [ConfigParserOverrideTuple(o["section"], o["key"], None) for o in ops if o["op"] == "remove"]
    add = [ConfigParserOverrideTuple(o["section"], o["key"], o["value"]) for o in ops if o["op"] == "add"]
    return over, add


def _label(o, with_value=True):
    if o.get("raw") is not None:
        return o["raw"]
    s = "%s:%s" % (o["section"], o["key"])
    if with_value and o["op"] != "remove":
        s += "=" + o["value"]
    return s


def _cli_lists(ops):
    return ([[_label(o)] for o in ops if o["op"] == "override"] or None,
            [[_label(o)] for o in ops if o["op"] == "add"] or None,
            [[_label(o, False)] for o in ops if o["op"] == "remove"] or None)


def _cli_args(ops):
    args = []
    for o in ops:
        flag = {"override": "--override-item", "add": "--add-item", "remove": "--remove-item"}[o["op"]]
        args += [flag, _label(o, o["op"] != "remove")]
    return args


def _expected_items(edited):
    items = []
    scale = dict((k, v) for n, ents in edited if n == "Notes" for k, v in ents).get("scale")
    for n, ents in edited:
        for k, v in ents:
            v = v.strip()                                           # blanks around a value are not part of it ...
            if scale is not None:
                v = v.replace("${Notes:scale}", scale.strip())      # ... and values are reported with place-holders resolved
            items.append(("%s:%s" % (n, _norm(k)), v))
    return sorted(items)


def check_case(case):
    m, ops, route = case["model"], case["ops"], case["route"]
    target = m["target"]
    secs = _secs(m, case.get("notes"))
    text = anymodel.text_of(secs)
    edited, reason, stats = hand_edit(secs, ops)
    cls = ["route:" + route, "target:" + target, "valid" if edited is not None else "invalid"]
    for o in ops:
        if o.get("invalid"):
            cls.append("invalid:%s:%s" % (o["invalid"], route))
        if o.get("colon"):
            cls.append("colon_value:" + route)
        if o.get("directions"):
            cls.append("both_directions_of_a_pair")
        if o.get("many"):
            cls.append("several_additions:" + route)
        if o.get("nearly_equal"):
            cls.append("override_nearly_equal")
    cls.extend(sorted(set("op:" + o["op"] for o in ops)))
    cls.extend(sorted(set("section:" + o["section"].split(":")[0] for o in ops)))
    if any(o["key"] != o["key0"] for o in ops):
        cls.append("whitespace_key")
    if any(o.get("value") and o["value"] != o["value"].strip() for o in ops):
        cls.append("padded_value:" + route)
    if stats["removes_last_key"]:
        cls.append("removes_last_key")
    if any(o.get("readd") for o in ops):
        cls.append("remove_then_add")
    if any(o["op"] == "override" and o.get("value") == "" for o in ops):
        cls.append("override_empty_value")
    if len(set(o["section"] for o in ops)) < len(set((o["section"], o["key0"]) for o in ops)) and \
            len(set(o["key0"] for o in ops)) < len(set((o["section"], o["key0"]) for o in ops)):
        cls.append("same_key_two_sections")
    ovk = [(o["section"], o["key0"]) for o in ops if o["op"] == "override"]
    if len(set(ovk)) < len(ovk):
        cls.append("repeated_override")
    v = []
    ctx = "operations %r\n--- file ---\n%s" % ([(o["op"], _label(o)) for o in ops], text)
    over, add = _tuples(ops)
    if route == "ConfigParser":
        mk = lambda: ConfigParser(io.StringIO(text), overrides=over, additional=add)  # noqa: E731
    elif route == "make_config_parser":
        o_, a_, r_ = _cli_lists(ops)
        mk = lambda: _make_config_parser(io.StringIO(text), o_, a_, r_, None, False)  # noqa: E731
    else:
        mk = None
    if edited is None:
        # invalid operation -> configuration error
        if route in ("cli", "main"):
            got = anymodel.cli_outcome(text, target, _cli_args(ops), inproc=route == "main")
        else:
            got = anymodel.outcome_from_parser(mk, target)
        if got[0] != "config_error":
            v.append(("invalid_operation_not_rejected:%s" % ([o.get("invalid") for o in ops if o.get("invalid")] + ["?"])[0],
                      "%s -> %r\n%s" % (reason, got[:1] + (got[1][:300],), ctx)))
        return {"v": v, "cls": cls, "nt": True}
    etext = anymodel.text_of(edited)
    ctx += "--- hand-edited ---\n" + etext
    want = anymodel.outcome(etext, target)
    if want[0] == "exception":
        return {"v": [], "cls": cls, "nt": False, "skip": True}
    base = anymodel.outcome(text, target)
    changes = base != want
    if route in ("cli", "main"):
        got = anymodel.cli_outcome(text, target, _cli_args(ops), inproc=route == "main")
    else:
        got = anymodel.outcome_from_parser(mk, target)
    if not anymodel.same_outcome(got, want):
        v.append(("output_differs", "with operations: %r\nhand-edited: %r\n%s" % (
            got[:1] + (got[1][:300],), want[:1] + (want[1][:300],), ctx)))
    # listing of the edited file
    if route not in ("cli", "main") and not any("\n" in val for _, e in edited for _, val in e):
        try:
            cp = mk()
            items = sorted(_query_actions._list_items(cp))
            exp = _expected_items(edited)
            cls.append("listing")
            if items != exp:
                missing = [i for i in exp if i not in items]
                extra_ = [i for i in items if i not in exp]
                v.append(("list_items", "--list-items of the edited model: missing %r, unexpected %r\n%s" % (missing[:6], extra_[:6], ctx)))
            labels = sorted(_query_actions._list_item_labels(cp))
            if labels != sorted(k for k, _ in exp):
                v.append(("list_item_labels", "labels %r, expected %r" % (labels, [k for k, _ in exp])))
            for k, val in exp[:6]:
                got_v = _query_actions._item_value(cp, k)
                if got_v != val:
                    v.append(("item_value", "--item-value %s -> %r, expected %r\n%s" % (k, got_v, val, ctx)))
                    break
            # ... and an item the edited file does not have (a removed one, another section's key, no section at
            # all) is reported as such, not with a value and not with an internal error
            have = set(k for k, _ in exp)
            gone = ["%s:%s" % (o["section"], _norm(o["key"])) for o in ops if o["op"] == "remove"]
            probes = [g for g in gone if g not in have][:1] + ["Nowhere:key", "Tabulation:%s" % exp[-1][0].split(":")[-1], "nokey"]
            for pk in probes:
                if pk in have:
                    continue
                cls.append("item_value:missing_item")
                try:
                    got_v = _query_actions._item_value(cp, pk)
                    v.append(("item_value:missing_item_has_value", "--item-value %s -> %r although the edited file has no such item\n%s" % (pk, got_v, ctx)))
                    break
                except ConfigurationException:
                    pass
        except ConfigurationException:
            pass
        except Exception as e:
            v.append(("listing:exception:%s@%s" % (type(e).__name__, libroute.innermost_atsim_frame(e)), "%r\n%s" % (e, ctx)))
    nt = (len(ops) >= 2 and changes) or stats["removes_last_key"]
    return {"v": v, "cls": cls, "nt": nt}


def extra(tier, seed, record):
    import hypothesis
    from hypothesis import given, settings, HealthCheck, Phase
    n = 6 if tier == "quick" else 80
    done = {"n": 0}

    @hypothesis.seed(seed * 7919 + 31)
    @settings(max_examples=n, database=None, deadline=None, suppress_health_check=list(HealthCheck), phases=[Phase.generate])
    @given(st.one_of(_case(), _case(None, True)))
    def run(case):
        ops = case["ops"]
        # the command line collapses repeated overrides of one key and cannot mix kinds on one key
        keys = [(o["section"], _norm(o["key"])) for o in ops]
        if len(set(keys)) < len(keys):
            return
        case = dict(case, route="cli")
        res = check_case(case)
        res["cls"] = list(res.get("cls", [])) + ["route:cli"]
        if not res.get("skip"):
            done["n"] += 1
        record(case, res)
    run()
    return {"cli_runs": done["n"]}
