"""C11 -- any two of nr/dr/cutoff (nrho/drho/cutoff_rho) fix the grid actually tabulated.

Generated / enumerated: decimal step sizes m*10^-e (1e-4..0.5), row counts
2..20000, every two-of-three combination for the separation and the density
grid, the cutoff formed in *decimal* arithmetic and written as a user types it;
omitted values; rejected combinations (all three, a step alone, non-positive
values).
Oracle: exact rational arithmetic (fractions.Fraction) gives the expected row
count and end point; observed on ConfigParser(...).tabulation, on the tabulation
object built by Configuration.read, and as the row count / spacing / end point
of the table actually written for every target (independent parsers).
The thorough tier enumerates the lattice {m*10^-e : m in 1..50, e in 1..4} x
k in 1..2000 exhaustively at parser level.
"""
import io
import itertools
import math
import multiprocessing
import os
from decimal import Decimal
from fractions import Fraction

from hypothesis import strategies as st

from vlib import bootstrap, libroute, parsers, render

bootstrap.activate()
from atsim.potentials.config import ConfigParser  # noqa: E402
from atsim.potentials.config._common import ConfigurationException  # noqa: E402

ID = "C11"
LEVEL = "exploration"
RULE = ("Hypothesis draws, independently for the separation and the density grid, a specification kind (two of "
        "three, one, none, or a rejected combination), a decimal step m*10^-e (m 1..500, e 1..4, value <= 0.5) and "
        "a row count (2..20000; tables are written for <= 600 rows), with the cutoff formed as the exact decimal "
        "product and typed without trailing zeros, and a tabulation target. Expected values come from exact "
        "rational arithmetic. Non-trivial = a cutoff+step specification (the branch that must recover an "
        "integer from a floating point quotient) or a rejected combination; distinct = canonical JSON. "
        "The enumeration part lists every (m, e, k) of a stated lattice once.")
ASSUMPTIONS = [
    "LAMMPS tables are written for row counts >= 3 only (C01's domain: nr = 2 leaves a single row and no spacing)",
    "row counts of 1 (step undefined) are outside the stated domain (2..20000 rows)",
    "DL_POLY pair tables are only written when the resulting row count is a multiple of four >= 8 (C02's domain: "
    "delpot = cutoff/(ngrid-4) is undefined for 4 rows)",
    "a cutoff that is not a whole multiple of the step is not constrained by the property and is not generated",
]
REQUIRED = {"grid:inexact_quotient:LAMMPS": 3, "variables_named_like_options:not_given_in_tabulation": 5, "r:cutoff_dr": 40, "r:nr_dr": 15, "r:nr_cutoff": 15, "rho:cutoff_dr": 15, "reject": 30, "fine_steps": 15, "reject:all_three": 4, "reject:step_alone": 4, "reject:nr<=0": 4, "reject:dr<=0": 4, "reject:cutoff<=0": 4, "reject:nr_not_int": 4, "reject:dr_not_number": 4, "reject:all_three_one_zero": 4, "reject:not_finite": 4, "reject:single_row": 4, "written": 60,
            "r:default": 10}
TARGETS = ["LAMMPS", "DLPOLY", "GULP", "excel", "setfl", "setfl_fs", "DL_POLY_EAM", "DL_POLY_EAM_fs",
           "excel_eam", "excel_eam_fs", "eam_adp"]
EAM = set(TARGETS[4:])
NAMES = {"r": ("nr", "dr", "cutoff"), "rho": ("nrho", "drho", "cutoff_rho")}
DEFAULTS = {"r": (1001, 10.0), "rho": (1001, 100.0)}


def dec_str(d):
    s = format(d, "f")
    if "." in s:
        s = s.rstrip("0").rstrip(".")
    return s or "0"


WHYS = ["all_three", "step_alone", "nr<=0", "dr<=0", "cutoff<=0", "nr_not_int", "dr_not_number", "all_three_one_zero",
        "not_finite", "single_row"]


@st.composite
def _axis(draw, max_rows, why=None, fine=False):
    kind = "reject" if why else draw(st.sampled_from(["cutoff_dr", "cutoff_dr", "cutoff_dr", "nr_dr", "nr_cutoff", "nr", "cutoff", "none",
                                                       "reject"]))
    if fine:
        # steps with many digits or of small magnitude (1.23456789e-2, 2.5e-9): nothing may be rounded to a fixed
        # number of decimals on the way
        e = draw(st.sampled_from([7, 9, 10, 12]))
        m = draw(st.one_of(st.integers(1, 10 ** 4), st.integers(10 ** 5, 10 ** 9)))
        m = min(m, 5 * 10 ** (e - 1))
    else:
        e = draw(st.integers(1, 4))
        m = draw(st.integers(1, min(500, 5 * 10 ** (e - 1))))
    step = Decimal(m).scaleb(-e)
    k = draw(st.one_of(st.integers(1, 60), st.integers(1, max_rows - 1)))
    ax = {"kind": kind, "dr": dec_str(step), "nr": k + 1, "cutoff": dec_str(step * k)}
    if kind == "reject":
        ax["why"] = why or draw(st.sampled_from(WHYS))
    return ax


def _inexact_grids():
    """(cutoff, nr) from round numbers for which cutoff / (cutoff/(nr-1)) - or the same without the first step - does
    not come back as the whole number it stands for in floating point: whatever derives the number of rows from such
    a quotient (a ceil(), an arange(), a while-loop on the sum) gets it wrong there"""
    above, other = [], []
    for cut in ("2.5", "5", "6.5", "7.5", "10", "12", "15", "20"):
        for nr in (51, 101, 201, 251, 501, 1001, 2001):
            c = float(cut)
            dr = c / (nr - 1)
            if (c - dr) / dr > nr - 2 or c / dr > nr - 1:
                above.append((cut, nr))
            elif (c - dr) / dr != nr - 2 or c / dr != nr - 1 or dr * (nr - 1) != c:
                other.append((cut, nr))
    mixed = []
    for i in range(max(len(above), len(other))):
        mixed += above[i:i + 1] + other[i:i + 1]
    return mixed


INEXACT_GRIDS = _inexact_grids()


@st.composite
def _inexact_axis(draw):
    cut, nr = draw(st.sampled_from(INEXACT_GRIDS))
    return {"kind": draw(st.sampled_from(["nr_cutoff", "cutoff_dr", "nr_dr"])), "dr": dec_str(Decimal(cut) / (nr - 1)), "nr": nr,
            "cutoff": dec_str(Decimal(cut))}


@st.composite
def _case(draw, max_rows, why=None, targets=None, fine=False, variables=False, inexact=False):
    target = draw(st.sampled_from(targets or TARGETS))
    if inexact:
        return {"r": draw(_inexact_axis()), "rho": draw(_inexact_axis()), "target": target, "inexact": True}
    if fine:
        return {"r": draw(_axis(max_rows, None, True)), "rho": draw(_axis(max_rows, None, True)), "target": target, "fine": True}
    if why:
        # one axis carries the refused combination, the other one is valid
        on_rho = target in EAM and draw(st.booleans())
        return {"r": draw(_axis(max_rows, None if on_rho else why)), "rho": draw(_axis(max_rows, why if on_rho else None)),
                "target": target}
    c = {"r": draw(_axis(max_rows)), "rho": draw(_axis(max_rows)), "target": target}
    if variables:
        # a [Variables] section whose entries happen to be NAMED like [Tabulation] options (a user's 'cutoff' used
        # in range definitions, say): they are not [Tabulation] items and fix nothing about the grid
        names = draw(st.lists(st.sampled_from(["nr", "dr", "cutoff", "nrho", "drho", "cutoff_rho", "rmax"]), min_size=1, max_size=3, unique=True))
        c["variables"] = [[n, draw(st.sampled_from(["4.0", "6", "0.25", "12.5", "3"]))] for n in names]
    return c


def strategy(tier):
    return _case(20000)


def strata(tier):
    # GULP and the spreadsheets walk the grid with their own row iterators (the others take nr and a step)
    return [("small", _case(600), 7), ("large", _case(20000), 3),
            ("row_iterators", _case(600, None, ["GULP", "excel", "excel_eam", "excel_eam_fs"]), 3),
            ("variables_named_like_options", _case(600, variables=True), 1.5),
            ("inexact_quotients", _case(600, None, ["LAMMPS", "GULP", "setfl", "excel", "DL_POLY_EAM", "setfl_fs", "eam_adp"], inexact=True), 2),
            ("fine_steps", _case(60, None, ["GULP", "excel", "setfl", "setfl_fs", "excel_eam", "eam_adp"], True), 3.5)] + [("reject:" + w, _case(60, w), 0.25) for w in WHYS]


def budget(tier):
    if tier == "quick":
        return {"examples": 450}
    return {"examples": 2500, "shards": 16}


def _entries(axname, ax):
    """[Tabulation] entries for one axis and (expected nr, expected cutoff as Fraction) or 'reject'"""
    n_nr, n_dr, n_cut = NAMES[axname]
    kind = ax["kind"]
    dn, dc = DEFAULTS[axname]
    nr, dr, cut = ax["nr"], ax["dr"], ax["cutoff"]
    fdr, fcut = Fraction(dr), Fraction(cut)
    if kind == "cutoff_dr":
        return [(n_cut, cut), (n_dr, dr)], (nr, fcut)
    if kind == "nr_dr":
        return [(n_nr, str(nr)), (n_dr, dr)], (nr, fdr * (nr - 1))
    if kind == "nr_cutoff":
        return [(n_nr, str(nr)), (n_cut, cut)], (nr, fcut)
    if kind == "nr":
        return [(n_nr, str(nr))], (nr, Fraction(dc))
    if kind == "cutoff":
        return [(n_cut, cut)], (dn, fcut)
    if kind == "none":
        return [], (dn, Fraction(dc))
    why = ax["why"]
    if why == "all_three":
        return [(n_nr, str(nr)), (n_dr, dr), (n_cut, cut)], "reject"
    if why == "step_alone":
        return [(n_dr, dr)], "reject"
    if why == "nr<=0":
        return [(n_nr, str(-(nr % 3))), (n_cut, cut)], "reject"
    if why == "dr<=0":
        return [(n_nr, str(nr)), (n_dr, "-" + dr if nr % 2 else "0")], "reject"
    if why == "cutoff<=0":
        return [(n_nr, str(nr)), (n_cut, "-" + cut if nr % 2 else "0.0")], "reject"
    if why == "all_three_one_zero":
        # all three given, one of them as 0 (a value, not an omission): both rules refuse it
        z = nr % 3
        return [(n_nr, "0" if z == 0 else str(nr)), (n_dr, "0" if z == 1 else dr), (n_cut, ("0", "0.0")[nr % 2] if z == 2 else cut)], "reject"
    if why == "not_finite":
        bad = ["inf", "nan", "-inf", "Infinity"][nr % 4]
        return [[(n_nr, str(nr)), (n_cut, bad)], [(n_cut, cut), (n_dr, bad)], [(n_nr, str(nr)), (n_dr, bad)]][(nr // 4) % 3], "reject"
    if why == "single_row":
        # one row does not define a grid (the spacing is cutoff/(nr-1)): nr given as 1, or a cutoff shorter than dr
        return [[(n_nr, "1"), (n_cut, cut)], [(n_nr, "1"), (n_dr, dr)], [(n_cut, dr), (n_dr, cut if Fraction(cut) > Fraction(dr) else "9.5")]][nr % 3], "reject"
    if why == "nr_not_int":
        return [(n_nr, "%d.5" % nr), (n_cut, cut)], "reject"
    return [(n_nr, str(nr)), (n_dr, "abc")], "reject"


def model_text(case):
    target = case["target"]
    er, wr = _entries("r", case["r"])
    tab = [("target", target)] + er
    wrho = None
    if target in EAM:
        erho, wrho = _entries("rho", case["rho"])
        tab += erho
    secs = [("Tabulation", tab)]
    if case.get("variables"):
        secs.insert(len(case["variables"]) % 2, ("Variables", [(n, v) for n, v in case["variables"]]))
    if target in EAM:
        secs.append(("Pair", [("Al-Al", "as.constant 1.5"), ("Al-Cu", "as.polynomial 0 1")]))
        secs.append(("EAM-Embed", [("Al", "as.polynomial 0 2"), ("Cu", "as.constant 3")]))
        if target.endswith("_fs"):
            secs.append(("EAM-Density", [("Al->Al", "as.polynomial 0 1"), ("Al->Cu", "as.constant 2"),
                                         ("Cu->Al", "as.constant 3"), ("Cu->Cu", "as.constant 4")]))
        else:
            secs.append(("EAM-Density", [("Al", "as.polynomial 0 1"), ("Cu", "as.constant 4")]))
        if target == "eam_adp":
            secs.append(("EAM-ADP-Dipole", [("Al-Al", "as.constant 0.5")]))
            secs.append(("EAM-ADP-Quadrupole", [("Al-Cu", "as.constant 0.25")]))
    else:
        secs.append(("Pair", [("A-B", "as.polynomial 0 1"), ("B-B", "as.constant 2.5")]))
    return render.sections_text(secs), wr, wrho


def _close(x, frac, ulps=8):
    want = float(frac)
    return abs(x - want) <= ulps * 2.3e-16 * max(abs(want), 1e-300)


def parser_level(text, wr, wrho):
    """violations observed on ConfigParser(...).tabulation"""
    v = []
    try:
        cp = ConfigParser(io.StringIO(text))
        t = cp.tabulation
        got = {"r": (t.nr, t.cutoff), "rho": (t.nrho, t.cutoff_rho)}
    except ConfigurationException as e:
        if wr == "reject" or wrho == "reject":
            return v, True
        return [("parser:rejected_valid", "%r\n%s" % (e, text))], True
    except Exception as e:
        return [("parser:exception:%s@%s" % (type(e).__name__, libroute.innermost_atsim_frame(e)), "%r\n%s" % (e, text))], True
    for ax, want in (("r", wr), ("rho", wrho)):
        if want is None:
            continue
        if want == "reject":
            v.append(("parser:accepted_invalid:" + ax, "accepted: %r\n%s" % (got[ax], text)))
            continue
        nr, cut = got[ax]
        dn, dc = DEFAULTS[ax]
        nr = dn if nr is None else nr
        cut = dc if cut is None else cut
        if nr != want[0]:
            v.append(("parser:row_count:" + ax, "%s = %r, expected %d rows\n%s" % (NAMES[ax][0], nr, want[0], text)))
        elif not _close(cut, want[1]):
            v.append(("parser:cutoff:" + ax, "%s = %r, expected %r\n%s" % (NAMES[ax][2], cut, float(want[1]), text)))
    return v, False


def _written_grids(target, out):
    """{'r': (rows, step, end), 'rho': (...)} measured on the written table"""
    res = {}
    if target == "LAMMPS":
        b = parsers.lammps_table(out)[0]
        rs = [r for _, r, _, _ in b["rows"]]
        res["r"] = (len(rs) + 1, rs[0], rs[-1], 1e-8)
    elif target == "DLPOLY":
        t = parsers.dlpoly_table(out)
        res["r"] = (t["ngrid"], None, t["cutpot"], 1e-7 * t["cutpot"])
    elif target == "GULP":
        b = parsers.gulp(out)[0]
        rs = [r for _, r in b["rows"]]
        res["r"] = (len(rs), rs[1] - rs[0], rs[-1], 2e-10)
    elif target.startswith("excel"):
        wb = parsers.xlsx(out)
        rs = [row[0] for row in wb["Pair"]["rows"]]
        res["r"] = (len(rs), rs[1] - rs[0], rs[-1], 1e-12 * max(1.0, rs[-1]))
        if "EAM-Embed" in wb:
            rh = [row[0] for row in wb["EAM-Embed"]["rows"]]
            res["rho"] = (len(rh), rh[1] - rh[0], rh[-1], 1e-12 * max(1.0, rh[-1]))
    elif target in ("setfl", "setfl_fs", "eam_adp"):
        t = parsers.setfl(out, fs=(target == "setfl_fs"), adp=(target == "eam_adp"))
        res["r"] = (t["nr"], t["dr"], t["dr"] * (t["nr"] - 1), 1e-13 * t["dr"] * t["nr"])
        res["rho"] = (t["nrho"], t["drho"], t["drho"] * (t["nrho"] - 1), 1e-13 * t["drho"] * t["nrho"])
        # density/pair arrays really have that many values: the parser would have failed otherwise
    else:
        t = parsers.tabeam(out)
        p = [b for b in t["blocks"] if b["kind"] == "pair"][0]
        e = [b for b in t["blocks"] if b["kind"] == "embe"][0]
        res["r"] = (p["n"], None, p["end"], 1e-13 * abs(p["end"]))
        res["rho"] = (e["n"], None, e["end"], 1e-13 * abs(e["end"]))
        # every function of r (pair and density blocks) is on the r grid, every embedding function on the rho grid
        for b in t["blocks"]:
            ax = "rho" if b["kind"] == "embe" else "r"
            if (b["n"], b["end"]) != (res[ax][0], res[ax][2]):
                res[ax] = (b["n"], None, b["end"], res[ax][3])
                break
    return res


def validate(case):
    if "lattice" in case:
        d = case["lattice"]
        return d.get("m", 0) >= 1 and d.get("k", 0) >= 1 and d.get("e", 0) in (1, 2, 3, 4)
    try:
        for ax in ("r", "rho"):
            a = case[ax]
            if a["nr"] < 2 or Decimal(a["dr"]) <= 0 or Decimal(a["dr"]) * (a["nr"] - 1) != Decimal(a["cutoff"]):
                return False
        return case["target"] in TARGETS
    except Exception:
        return False


def _lattice_case(d):
    n, bad = _lattice_chunk((d["e"], [d["m"]], d["k"], [d["k"]]))
    bad = [b for b in bad if b["k"] == d["k"] and b["axis"] == d["axis"]]
    v = []
    for b in bad:
        step = Decimal(b["m"]).scaleb(-b["e"])
        v.append(("lattice:row_count:" + b["axis"], "cutoff %s / step %s -> %r rows, expected %d\n%s" % (
            dec_str(step * b["k"]), dec_str(step), b["got"], b["k"] + 1, b["text"])))
    return {"v": v, "cls": ["lattice"], "nt": True}


def check_case(case):
    if "lattice" in case:
        return _lattice_case(case["lattice"])
    text, wr, wrho = model_text(case)
    target = case["target"]
    cls = ["target:" + target, "r:" + case["r"]["kind"]]
    if target in EAM:
        cls.append("rho:" + case["rho"]["kind"])
    rejecting = wr == "reject" or wrho == "reject"
    if case.get("fine"):
        cls.append("fine_steps")
    if case.get("inexact"):
        cls.append("grid:inexact_quotient:" + target)
    if case.get("variables"):
        given = set(n for n, _ in _entries("r", case["r"])[0]) | (set(n for n, _ in _entries("rho", case["rho"])[0]) if target in EAM else set())
        cls.append("variables_named_like_options" + (":not_given_in_tabulation" if any(n not in given and n != "rmax" for n, _ in case["variables"]) else ""))
    if rejecting:
        cls.append("reject")
        for axn in ("r", "rho"):
            if case[axn]["kind"] == "reject" and (axn == "r" or target in EAM):
                cls.append("reject:" + case[axn]["why"])
    if wr != "reject" and case["r"]["kind"] in ("nr", "cutoff", "none"):
        cls.append("r:default")
    v, _ = parser_level(text, wr, wrho)
    nt = rejecting or case["r"]["kind"] == "cutoff_dr" or (target in EAM and case["rho"]["kind"] == "cutoff_dr")
    # tabulation object and written table
    try:
        tab = libroute.read_text(text)
        if rejecting:
            v.append(("read:accepted_invalid", "Configuration.read accepted\n%s" % text))
            return {"v": v, "cls": cls, "nt": nt}
    except ConfigurationException as e:
        if not rejecting and not (target == "DLPOLY" and (wr[0] % 4 != 0 or wr[0] < 8)):
            v.append(("read:rejected_valid", "%r\n%s" % (e, text)))
        return {"v": v, "cls": cls, "nt": nt}
    except Exception as e:
        v.append(("read:exception:%s@%s" % (type(e).__name__, libroute.innermost_atsim_frame(e)), "%r\n%s" % (e, text)))
        return {"v": v, "cls": cls, "nt": nt}
    if target == "DLPOLY" and (wr[0] % 4 != 0 or wr[0] < 8):
        # C02: a row count not divisible by four is refused; with 4 rows delpot = cutoff/(ngrid-4) does not exist
        v.append(("read:accepted_invalid", "DL_POLY accepted %d rows\n%s" % (wr[0], text)))
        return {"v": v, "cls": cls, "nt": nt}
    if tab.nr != wr[0] or not _close(tab.cutoff, wr[1]):
        v.append(("object:r", "tabulation object nr=%r cutoff=%r, expected %d, %r\n%s" % (tab.nr, tab.cutoff, wr[0], float(wr[1]), text)))
    if target in EAM and (tab.nrho != wrho[0] or not _close(tab.cutoff_rho, wrho[1])):
        v.append(("object:rho", "tabulation object nrho=%r cutoff_rho=%r, expected %d, %r\n%s" % (
            tab.nrho, tab.cutoff_rho, wrho[0], float(wrho[1]), text)))
    rows = max(wr[0], wrho[0] if target in EAM else 0)
    if rows <= 600 and not v:
        cls.append("written")
        try:
            out = libroute.write_text(tab)
            g = _written_grids(target, out)
        except Exception as e:
            v.append(("write:exception:%s@%s" % (type(e).__name__, libroute.innermost_atsim_frame(e)), "%r\n%s" % (e, text)))
            return {"v": v, "cls": cls, "nt": nt}
        for ax, want in (("rho", wrho), ("r", wr)) if target.startswith("DL_POLY_EAM") else (("r", wr), ("rho", wrho)):
            if ax not in g or want is None:
                continue
            n, step, end, tol = g[ax]
            wstep = want[1] / (want[0] - 1)
            if n != want[0]:
                v.append(("written:row_count:" + ax, "table has %d rows, expected %d\n%s" % (n, want[0], text)))
            elif abs(end - float(want[1])) > tol + 1e-12 * float(want[1]):
                v.append(("written:end_point:" + ax, "table ends at %r, expected %r\n%s" % (end, float(want[1]), text)))
            elif step is not None and abs(step - float(wstep)) > tol + 1e-12 * float(wstep):
                v.append(("written:spacing:" + ax, "table spacing %r, expected %r\n%s" % (step, float(wstep), text)))
    return {"v": v, "cls": cls, "nt": nt}


# ---- exhaustive lattice at parser level ------------------------------------------
def _lattice_chunk(args):
    bootstrap.activate()
    e, ms, kmax = args[:3]
    ks = args[3] if len(args) > 3 else range(1, kmax + 1)
    bad = []
    n = 0
    for m in ms:
        step = Decimal(m).scaleb(-e)
        for k in ks:
            for ax, target in (("r", "LAMMPS"), ("rho", "setfl")):
                n_nr, n_dr, n_cut = NAMES[ax]
                text = "[Tabulation]\ntarget : %s\n%s : %s\n%s : %s\n" % (target, n_cut, dec_str(step * k), n_dr, dec_str(step))
                n += 1
                try:
                    t = ConfigParser(io.StringIO(text)).tabulation
                    got = t.nr if ax == "r" else t.nrho
                except Exception as ex:
                    got = repr(ex)
                if got != k + 1:
                    bad.append({"m": m, "e": e, "k": k, "axis": ax, "got": got, "text": text})
    return n, bad


def extra(tier, seed, record):
    kmax = 25 if tier == "quick" else 2000
    jobs = [(e, list(range(m0, m0 + 5)), kmax) for e in range(1, 5) for m0 in range(1, 51, 5)]
    # large tables (the quotient's rounding error grows with k): a sparse sweep of 2001..20000 rows
    big = list(range(2001 + seed % 7, 20001, 61 if tier == "quick" else 3))
    for e in (2, 3, 4):
        for m in (1, 2, 5, 7, 12, 35):
            for c in range(0, len(big), 400):
                jobs.append((e, [m], 0, big[c:c + 400]))
    total = 0
    bad = []
    ctx = multiprocessing.get_context("spawn")
    with ctx.Pool(min(16, os.cpu_count() or 1)) as pool:
        for n, b in pool.imap_unordered(_lattice_chunk, jobs):
            total += n
            bad.extend(b)
    bad.sort(key=lambda d: (d["axis"], d["e"], d["m"], d["k"]))
    for d in bad[:200]:
        case = {"lattice": dict((k, d[k]) for k in ("m", "e", "k", "axis"))}
        record(case, _lattice_case(case["lattice"]))
    return {"lattice_cases": total, "lattice_failures": len(bad), "lattice_exhaustive": True,
            "lattice": "{m*10^-e : m in 1..50, e in 1..4} x k in 1..%d x {nr/dr/cutoff, nrho/drho/cutoff_rho}, "
                       "cutoff+step specification at parser level (complete); plus a sparse sweep of k in 2001..20000 "
                       "(every %d-th) for m in {1,2,5,7,12,35}, e in {2,3,4}" % (kmax, 61 if tier == "quick" else 3)}
