"""C20 -- each interaction/form is defined at most once; duplicates are rejected.

Generated: a whole well-formed model for any target plus ONE duplication of one
of its definitions: same key, reversed pair, whitespace variants of 'A-B',
'A->B', 'f(r,a)' and 'Table-Form:name', a custom form re-declared with another
parameter list, a table form named like a custom formula or like a built-in
form.  The duplicate always differs observably from the original (other value).
Oracle: reading/tabulating the file is refused with a configuration error; the
unduplicated model is accepted (so the refusal is caused by the duplicate).
"""
from hypothesis import strategies as st

from vlib import bootstrap, gen, anymodel

bootstrap.activate()

ID = "C20"
LEVEL = "exploration"
RULE = ("Hypothesis builds a whole model for a random target (with at least one custom and one table form when "
        "the operator needs it) and applies one duplication operator at a generated site, placing the duplicate "
        "before or after the original. Non-trivial = the unduplicated model tabulates successfully (always "
        "required: otherwise the case is skipped); distinct = canonical JSON. Stratified by operator.")
ASSUMPTIONS = [
    "[EAM-ADP-Dipole]/[EAM-ADP-Quadrupole] functions are not among the things the statement lists and are not duplicated",
    "whitespace variants are only generated around punctuation of a key ('-', '->', '(', ',', ')', ':'), never inside a label",
]
OPERATORS = ["same_key", "reversed_pair", "ws_pair", "ws_reversed_pair", "ws_fs_density", "ws_formula_signature",
             "formula_other_params", "table_section_twice", "table_section_ws", "table_named_like_formula",
             "table_named_like_builtin", "same_key_embed_density", "adp_same_key", "adp_reversed_pair", "adp_ws_reversed_pair",
             "formula_label_other_case", "table_label_other_case", "section_name_whitespace", "table_section_inner_ws"]
REQUIRED = dict(("op:" + o, 6) for o in OPERATORS)
REQUIRED["clashing_formula_is_not_the_first_entry"] = 2
OTHER_VALUE = "as.constant 7.25"


@st.composite
def _case(draw, op, later=False):
    if op in ("ws_fs_density",):
        targets = ["setfl_fs", "DL_POLY_EAM_fs", "excel_eam_fs"]
    elif op == "same_key_embed_density":
        targets = sorted(gen.EAM_TARGETS)
    elif op.startswith("adp_"):
        targets = ["eam_adp"]
    else:
        targets = None
    m = draw(gen.any_model(targets, 2, 3, depth=1, tables=False))
    if op in ("ws_formula_signature", "formula_other_params", "table_named_like_formula", "formula_label_other_case") and not m["env"]["custom"]:
        m["env"]["custom"] = draw(gen.custom_forms(2, 1, min_forms=1))
    if op in ("table_named_like_formula", "formula_other_params", "formula_label_other_case") and (later or draw(st.integers(0, 2)) > 0):
        # several formulas, so that the clashing one is not always the first entry of its section
        have = set(c["name"] for c in m["env"]["custom"])
        extra = [c for c in draw(gen.custom_forms(2, 1, min_forms=1)) if c["name"] not in have]
        names = set(c["name"] for c in extra)
        if not any(gen._expr_has_custom(c["expr"]) for c in extra):
            m["env"]["custom"] = (extra + m["env"]["custom"]) if draw(st.booleans()) else (m["env"]["custom"] + extra)
    if op.startswith("table_") and not m["env"]["table"]:
        m["env"]["table"] = [draw(gen.table_form("tab1", 6))]
    site = draw(st.integers(0, 50))
    if later and len(m["env"]["custom"]) > 1:
        site = draw(st.integers(1, len(m["env"]["custom"]) - 1))     # the clashing formula is not the first entry
    return {"model": m, "op": op, "site": site, "before": draw(st.booleans()),
            # blanks, tabs and the non-ASCII blanks (no-break, thin, ideographic space): all are whitespace to str.split()
            "ws": draw(st.sampled_from([" ", "  ", "\t", "\u00a0", "\u2009", "\u3000"]))}


def strategy(tier):
    return _case("same_key")


def strata(tier):
    return [(o, _case(o), 1) for o in OPERATORS] + [("table_named_like_formula:later_entry", _case("table_named_like_formula", True), 1)]


def budget(tier):
    if tier == "quick":
        return {"examples": 240}
    return {"examples": 900, "shards": 16}


def _sec(secs, name):
    for s in secs:
        if s[0] == name:
            return s
    return None


def duplicate(case):
    """-> (sections with the duplicate, description) or None when the operator has no site in this model"""
    m, op = case["model"], case["op"]
    secs = anymodel.sections_of(m)
    ws = case["ws"]

    def put(section, key, value, orig_key):
        ents = section[1]
        idx = [i for i, (k, _) in enumerate(ents) if k == orig_key][0]
        ents.insert(idx if case["before"] else idx + 1, [key, value])

    def pick(lst):
        return lst[case["site"] % len(lst)] if lst else None

    pair = _sec(secs, "Pair")
    if op == "same_key":
        cands = [(s, k) for s in secs if s[0] in ("Pair", "Potential-Form") for k, _ in s[1]]
        c = pick(cands)
        if not c:
            return None
        s, k = c
        put(s, k, OTHER_VALUE if s[0] == "Pair" else "1.0 + 7.25", k)
        return secs, "%s entry %r defined twice" % (s[0], k)
    if op == "same_key_embed_density":
        cands = [(s, k) for s in secs if s[0] in ("EAM-Embed", "EAM-Density") for k, _ in s[1]]
        c = pick(cands)
        if not c:
            return None
        s, k = c
        put(s, k, OTHER_VALUE, k)
        return secs, "%s entry %r defined twice" % (s[0], k)
    if op.startswith("adp_"):
        # the dipole and quadrupole functions of an ADP model are given per pair of species, like pair potentials
        cands = [(s, k) for s in secs if s[0] in ("EAM-ADP-Dipole", "EAM-ADP-Quadrupole") for k, _ in s[1]]
        if op != "adp_same_key":
            cands = [(s, k) for s, k in cands if k.split("-")[0] != k.split("-")[1]]
        c = pick(cands)
        if not c:
            return None
        s, k = c
        a, b = k.split("-")
        nk = k if op == "adp_same_key" else "%s-%s" % (b, a) if op == "adp_reversed_pair" else "%s%s-%s%s" % (b, ws, ws, a)
        put(s, nk, OTHER_VALUE, k)
        return secs, "%s entry %r also given as %r" % (s[0], k, nk)
    if op in ("formula_label_other_case", "table_label_other_case"):
        # formulas are evaluated by exprtk, whose symbols are case-insensitive: f and F are one name there
        if op == "formula_label_other_case":
            pf0 = _sec(secs, "Potential-Form")
            k = pick([k for k, _ in pf0[1]]) if pf0 else None
            if not k:
                return None
            name, rest = k.split("(", 1)
            nk = (name.upper() if name.upper() != name else name.lower()) + "(" + rest
            put(pf0, nk, "%s * 2.0 + 7.25" % rest.rstrip(")").split(",")[0], k)
            return secs, "custom form %r also declared as %r" % (k, nk)
        tabs0 = [s for s in secs if s[0].startswith("Table-Form:")]
        t = pick(tabs0)
        if not t:
            return None
        name = t[0].split(":", 1)[1]
        nn = name.upper() if name.upper() != name else name.lower()
        secs.insert(secs.index(t) + (0 if case["before"] else 1), ["Table-Form:" + nn, [["xy", "0.0 1.0 1.0 2.0 2.0 0.5 3.0 0.25 4.0 0.0"]]])
        return secs, "table form %r also declared as %r" % (name, nn)
    if op in ("reversed_pair", "ws_pair", "ws_reversed_pair"):
        cands = [k for k, _ in pair[1]] if pair else []
        if op != "ws_pair":
            cands = [k for k in cands if k.split("-")[0] != k.split("-")[1]]
        k = pick(cands)
        if not k:
            return None
        a, b = k.split("-")
        if op == "reversed_pair":
            nk = "%s-%s" % (b, a)
        elif op == "ws_pair":
            nk = "%s%s-%s%s" % (a, ws, ws, b)
        else:
            nk = "%s%s-%s%s" % (b, ws, ws, a)
        put(pair, nk, OTHER_VALUE, k)
        return secs, "pair %r also given as %r" % (k, nk)
    if op == "ws_fs_density":
        d = _sec(secs, "EAM-Density")
        k = pick([k for k, _ in d[1]]) if d else None
        if not k:
            return None
        a, b = k.split("->")
        nk = "%s%s->%s%s" % (a, ws, ws, b)
        put(d, nk, OTHER_VALUE, k)
        return secs, "density %r also given as %r" % (k, nk)
    pf = _sec(secs, "Potential-Form")
    if op in ("ws_formula_signature", "formula_other_params"):
        k = pick([k for k, _ in pf[1]]) if pf else None
        if not k:
            return None
        name, rest = k.split("(", 1)
        params = rest.rstrip(")").split(",")
        if op == "ws_formula_signature":
            nk = "%s(%s)" % (name, (ws + "," + ws).join(params)) if len(params) > 1 else "%s(%s%s%s)" % (name, ws, params[0], ws)
            if "\t" in nk:
                nk = nk.replace("\t", " ")
        else:
            nk = "%s(%s)" % (name, ",".join(params + ["zq9"]))
        put(pf, nk, "%s * 2.0 + 7.25" % params[0], k)
        return secs, "custom form %r also declared as %r" % (k, nk)
    tabs = [s for s in secs if s[0].startswith("Table-Form:")]
    if op in ("table_section_twice", "table_section_ws"):
        t = pick(tabs)
        if not t:
            return None
        name = t[0].split(":", 1)[1]
        nn = "Table-Form:%s" % name if op == "table_section_twice" else "Table-Form:%s%s%s" % (" ", name, " ")
        if op == "table_section_twice":
            # an identical header is rejected by the INI reader itself; use it too
            pass
        dup = [nn, [["x", "0 1 2 3 4"], ["y", "7.25 1 2 3 4"]]]
        i = secs.index(t)
        secs.insert(i if case["before"] else i + 1, dup)
        return secs, "table form %r defined by two sections (%r)" % (name, nn)
    if op == "table_named_like_formula":
        k = pick([k for k, _ in pf[1]]) if pf else None
        if not k:
            return None
        name = k.split("(", 1)[0]
        dup = ["Table-Form:" + name, [["x", "0 1 2 3 4"], ["y", "7.25 1 2 3 4"]]]
        i = secs.index(pf)
        secs.insert(i if case["before"] else i + 1, dup)
        return secs, "table form and custom formula both called %r" % name
    if op == "section_name_whitespace":
        # a second section whose NAME differs only in whitespace ('[Pair ]', '[ Tabulation]'): the same section again
        cand = [s_ for s_ in secs if s_[1] and not s_[0].startswith("Table-Form")]
        t = pick(cand)
        if not t:
            return None
        k, val = t[1][case["site"] % len(t[1])]
        nn = [t[0] + " ", " " + t[0], t[0].replace("-", " -", 1) if "-" in t[0] else t[0] + "  "][(case["site"] // 3) % 3]
        other = OTHER_VALUE if t[0] in ("Pair", "EAM-Embed", "EAM-Density", "EAM-ADP-Dipole", "EAM-ADP-Quadrupole") else val
        i = secs.index(t)
        secs.insert(i if case["before"] else i + 1, [nn, [[k, other]]])
        return secs, "section [%s] given again as [%s]" % (t[0], nn)
    if op == "table_section_inner_ws":
        t = pick(tabs)
        if not t:
            return None
        name = t[0].split(":", 1)[1]
        if len(name) < 2:
            return None
        nn = "Table-Form:%s %s" % (name[:len(name) // 2], name[len(name) // 2:])
        i = secs.index(t)
        secs.insert(i if case["before"] else i + 1, [nn, [["x", "0 1 2 3 4"], ["y", "7.25 1 2 3 4"]]])
        return secs, "table form %r defined by two sections (%r)" % (name, nn)
    if op == "table_named_like_builtin":
        name = "as." + pick(sorted(gen.BUILTIN + ["buck4"]))
        if case["site"] % 3 == 0:
            # the pymath.* functions offered to formulas are built-in names as well
            name = "pymath." + pick(["ceil", "floor", "fabs", "factorial", "sqrt"])
        secs.append(["Table-Form:" + name, [["x", "0 1 2 3 4"], ["y", "7.25 1 2 3 4"]]])
        return secs, "table form called like the built-in %r" % name
    return None


def check_case(case):
    m = case["model"]
    target = m["target"]
    cls = ["op:" + case["op"], "target:" + target]
    base_secs = anymodel.sections_of(m)
    base = anymodel.outcome(anymodel.text_of(base_secs), target)
    if base[0] != "ok":
        return {"v": [], "cls": [], "nt": False, "skip": True}
    d = duplicate(case)
    if d is None:
        return {"v": [], "cls": [], "nt": False, "skip": True}
    secs, what = d
    if case["op"] == "table_named_like_formula":
        tnames = [s_[0].split(":", 1)[1].strip() for s_ in secs if s_[0].startswith("Table-Form:")]
        pf = _sec(secs, "Potential-Form")
        keys = [k.split("(", 1)[0].strip() for k, _ in pf[1]] if pf else []
        if any(k in tnames for k in keys[1:]):
            cls.append("clashing_formula_is_not_the_first_entry")
    text = anymodel.text_of(secs)
    got = anymodel.outcome(text, target)
    v = []
    if got[0] == "ok":
        follows = "the original definition" if got[1] == base[1] else "the duplicate (or a mixture)"
        v.append(("accepted:" + case["op"], "%s: accepted, output follows %s\n%s" % (what, follows, text)))
    elif got[0] == "exception":
        v.append(("internal_error:" + case["op"], "%s: %s\n%s" % (what, got[1], text)))
    return {"v": v, "cls": cls, "nt": True}
