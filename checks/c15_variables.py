"""C15 -- [Variables] substitution equals textual substitution and changes nothing else.

Generated: a whole model for any target; a random subset of the numeric literals
of its section values ([Tabulation], [Pair], [EAM-*], [Potential-Form],
[Table-Form:*], [Species]) lifted into ${NAME} placeholders backed by [Variables],
or into ${SECTION:KEY} placeholders backed by another section; unused variables,
including ones whose names equal option names of other sections (nr, target, x,
interpolation, a species label, a pair key).
Oracle: the file with the placeholder values substituted by hand and [Variables]
removed tabulates to the same output (or both are refused) for every target;
--list-items shows no variable inside another section.
"""
import re

from hypothesis import strategies as st

from vlib import bootstrap, gen, libroute, anymodel

bootstrap.activate()
from atsim.potentials.config import ConfigParser  # noqa: E402
from atsim.potentials.config._common import ConfigurationException  # noqa: E402
from atsim.potentials.tools.potable import _query_actions  # noqa: E402

ID = "C15"
LEVEL = "exploration"
RULE = ("Hypothesis builds a whole model for a random target, selects 0..6 numeric literals anywhere in its "
        "section values and replaces each by ${NAME} (value in [Variables]) or ${SECTION:KEY} (value in a "
        "[Constants] or [Species] entry), and adds 0..3 unused variables whose names are drawn from option names "
        "of other sections. Placeholders may be nested (a variable defined through another) "
        "or name an entry of their own section. Non-trivial = at least one literal lifted and the output depends on it (checked by "
        "the oracle run itself being 'ok'), or an unused variable named like a foreign option; distinct = "
        "canonical JSON.")
ASSUMPTIONS = [
    "a placeholder ${NAME} is never used inside a section that has an option called NAME itself (configparser "
    "resolves the section's own option first; the property does not say which a hand-substituter would take)",
    "a bare ${KEY} that names an entry of the section it stands in, and no variable, is a reference to that entry "
    "(the manual states that configparser's extended interpolation is what is used): generated inside [Tabulation] "
    "(nrho : ${nr}) and [Species]",
]
REQUIRED = {"reread_after_referenced_entry_changed": 5, "target_left_to_default": 4, "nested_placeholder": 20, "own_section_ref": 5, "lifted>=1": 100, "section_ref": 30, "unused_var": 60, "foreign_option_name": 40,
            "lift:Tabulation": 10, "lift:Pair": 15, "lift:Potential-Form": 5, "lift:Table-Form": 5, "lift:Species": 5}
NUM = re.compile(r"(?<![\w.$\{:])-?\d+(?:\.\d+)?(?:e[+-]?\d+)?(?![\w.\}])")
VAR_NAMES = ["v1", "alpha_v", "rho", "nsteps", "A_param", "cut2"]
FOREIGN = ["nr", "target", "x", "y", "interpolation", "cutoff", "nrho", "Al", "O", "Al-Al", "Xa-Xb", "f(r)", "Al->Al",
           "Al.atomic_mass"]


@st.composite
def _case(draw, targets=None, focus=None):
    m = draw(gen.any_model(targets, 1, 3, depth=1))
    if m["kind"] != "pair" and (focus == "own" or draw(st.integers(0, 2)) == 0):
        # equal grid numbers: one may be written as a reference to the other (${nr} inside [Tabulation])
        m["grid"]["nrho"] = m["grid"]["nr"]
        m["grid"]["cutoff_rho"] = m["grid"]["cutoff"]
    secs = anymodel.sections_of(m)
    if focus == "defaults":
        secs = [[n, [[k, v] for k, v in e if not (n == "Tabulation" and k == "target")]] for n, e in secs]
    spots = []
    for si, (n, ents) in enumerate(secs):
        for ei, (k, v) in enumerate(ents):
            for mt in NUM.finditer(v):
                if focus != "own" or n in ("Species", "Tabulation"):
                    spots.append((si, ei, mt.start(), mt.end()))
    nl = draw(st.integers(1 if (focus == "section" and spots) else 0, min(6, len(spots))))
    chosen = sorted(draw(st.permutations(spots))[:nl]) if spots else []
    lifts = []
    for i, sp in enumerate(chosen):
        kind = "own" if focus == "own" else "section" if focus == "section" else draw(st.sampled_from(["var", "var", "section", "own"]))
        name = draw(st.sampled_from(VAR_NAMES + FOREIGN[:7])) + ("_%d" % i if draw(st.booleans()) else "")
        # nested: the value the placeholder points at is itself written with a placeholder
        lifts.append({"spot": list(sp), "kind": kind, "name": name, "nested": draw(st.integers(0, 3)) == 0})
    unused = draw(st.lists(st.tuples(st.sampled_from(FOREIGN + VAR_NAMES),
                                     st.sampled_from(["7", "0.25", "LAMMPS", "GULP", "as.constant 1", "1 2 3 4", "cubic_spline"])),
                           min_size=0, max_size=3, unique_by=lambda t: t[0]))
    case = {"model": m, "lifts": lifts, "unused": [list(u) for u in unused],
            "route": draw(st.sampled_from(["inproc", "inproc", "main"]))}
    if focus == "defaults":
        # [Tabulation] leaves 'target' to its documented default (LAMMPS) while a variable nobody refers to happens to
        # be called 'target' (or like another option that is left out)
        case["omit_target"] = True
        case["unused"] = [u for u in case["unused"] if u[0] != "target"] + [["target", draw(st.sampled_from(["GULP", "DL_POLY", "setfl", "excel"]))]]
    return case


def strategy(tier):
    return _case()


def strata(tier):
    return [("pair", _case(gen.PAIR_TARGETS), 4), ("eam", _case(sorted(gen.EAM_TARGETS)), 5),
            ("defaults:target_left_out", _case(["LAMMPS"], "defaults"), 1),
            ("own_section", _case(sorted(gen.EAM_TARGETS), "own"), 2),
            # every lifted number is written ${Constants:NAME}: the re-read after [Constants] was edited applies
            ("section_refs", _case(None, "section"), 1.2)]


def budget(tier):
    if tier == "quick":
        return {"examples": 220}
    return {"examples": 900, "shards": 16}


def build(case):
    """-> (sections with placeholders + [Variables]/[Constants], plain sections, classes) or None if a lift is
    inadmissible (name clash with an option of the referencing section)"""
    m = case["model"]
    secs = anymodel.sections_of(m)
    if case.get("omit_target"):
        secs = [[n, [[k, v] for k, v in e if not (n == "Tabulation" and k == "target")]] for n, e in secs]
    plain = [[n, [[k, v] for k, v in e]] for n, e in secs]
    out = [[n, [[k, v] for k, v in e]] for n, e in secs]
    variables = {}
    constants = []
    species_extra = []
    cls = []
    pinned = set()
    # apply lifts from the end of each value backwards so that spans stay valid
    for lf in sorted(case["lifts"], key=lambda l: (l["spot"][0], l["spot"][1], -l["spot"][2])):
        si, ei, a, b = lf["spot"]
        n, ents = out[si]
        k, v = ents[ei]
        tok = plain[si][1][ei][1][a:b]
        if v[a:b] != tok:
            return None
        name = lf["name"]
        if (si, k) in pinned:
            continue
        own = set("".join(kk.split()) for kk, _ in ents)
        kind = lf["kind"]
        stored = tok
        if lf.get("nested"):
            base = "%s_base%d" % (re.sub(r"\W", "_", name), a)
            if base in own or (base in variables and variables[base] != tok):
                return None
            variables[base] = tok
            stored = "${%s}" % base
            cls.append("nested_placeholder")
        if kind == "own":
            # a bare ${KEY} naming an entry of the SAME section (configparser looks there first); KEY is not a variable
            ph = None
            if n == "Species":
                key = "Qq.%s" % re.sub(r"\W", "_", name)
                if key in variables or any(c[0] == key and c[1] != stored for c in species_extra):
                    return None
                if not any(c[0] == key for c in species_extra):
                    species_extra.append([key, stored])
                ph = "${%s}" % key
            elif n == "Tabulation":
                current = dict((kk, vv) for kk, vv in ents)
                for kk, vv in plain[si][1]:
                    # the entry referred to stays a literal (no reference cycles)
                    if kk != k and vv.strip() == tok and v[a:b] == v.strip() and kk not in variables \
                            and current.get(kk) == vv and (si, k) not in pinned:
                        ph = "${%s}" % kk
                        pinned.add((si, kk))
                        break
            if ph is None:
                kind = "var"
            else:
                cls.append("own_section_ref")
        if kind == "own":
            pass
        elif kind == "var":
            if name in own or (name in variables and variables[name] != stored):
                return None
            variables[name] = stored
            ph = "${%s}" % name
        else:
            tok = stored
            if n == "Species" or lf["spot"][2] % 2:
                key = "c_%s" % re.sub(r"\W", "_", name)
                if any(c[0] == key and c[1] != tok for c in constants):
                    return None
                if not any(c[0] == key for c in constants):
                    constants.append([key, tok])
                ph = "${Constants:%s}" % key
            else:
                key = "Qq.%s" % re.sub(r"\W", "_", name)
                if any(c[0] == key and c[1] != tok for c in species_extra):
                    return None
                if not any(c[0] == key for c in species_extra):
                    species_extra.append([key, tok])
                ph = "${Species:%s}" % key
            cls.append("section_ref")
        ents[ei][1] = v[:a] + ph + v[b:]
        cls.append("lift:" + n.split(":")[0])
    for name, val in case["unused"]:
        if name in variables:
            continue
        variables[name] = val
        cls.append("unused_var")
        if name in FOREIGN:
            cls.append("foreign_option_name")
    if constants:
        out.append(["Constants", constants])
    if species_extra:
        sp = [s for s in out if s[0] == "Species"]
        if sp:
            sp[0][1].extend(species_extra)
        else:
            out.append(["Species", species_extra])
    if variables:
        out.insert(0, ["Variables", [[k, v] for k, v in variables.items()]])
    if case["lifts"]:
        cls.append("lifted>=1")
    if case.get("omit_target"):
        cls.append("target_left_to_default")
    return out, plain, sorted(set(cls))


def check_case(case):
    b = build(case)
    target = case["model"]["target"]
    if b is None:
        return {"v": [], "cls": ["inadmissible"], "nt": False, "skip": True}
    withvars, plain, cls = b
    cls = cls + ["target:" + target, "route:" + case.get("route", "inproc")]
    text = anymodel.text_of(withvars)
    ptext = anymodel.text_of(plain)
    want = anymodel.outcome(ptext, target)
    if want[0] == "exception":
        return {"v": [], "cls": cls, "nt": False, "skip": True}
    if case.get("route") in ("cli", "main"):
        got = anymodel.cli_outcome(text, target, [], inproc=case["route"] == "main")
    else:
        got = anymodel.outcome(text, target)
    v = []
    ctx = "--- file with placeholders ---\n%s--- substituted by hand ---\n%s" % (text, ptext)
    if not anymodel.same_outcome(got, want):
        v.append(("output_differs", "with [Variables]: %r\nsubstituted by hand: %r\n%s" % (
            got[:1] + (got[1][:300],), want[:1] + (want[1][:300],), ctx)))
    # variables are not members of other sections
    if case.get("route") != "cli":
        try:
            cp = ConfigParser(__import__("io").StringIO(text))
            items = _query_actions._list_items(cp)
            vnames = set(k for k, _ in (withvars[0][1] if withvars and withvars[0][0] == "Variables" else []))
            own = dict((n, set("".join(k.split()) for k, _ in e)) for n, e in withvars)
            # defining a variable changes no section: every own key of every section is still listed exactly once
            # (also when a variable happens to carry the same name as a key of that section)
            want_labels = sorted("%s:%s" % (n, "".join(k.split())) for n, e in withvars for k, _ in e)
            got_labels = sorted(k for k, _ in items)
            if got_labels != want_labels:
                missing = [x for x in want_labels if x not in got_labels]
                extra_ = [x for x in got_labels if x not in want_labels]
                v.append(("listing_incomplete", "--list-items: missing %r, unexpected %r\n%s" % (missing[:6], extra_[:6], ctx)))
            for label, val in items:
                sec, key = _query_actions.split_item_label(label) if hasattr(_query_actions, "split_item_label") else label.split(":", 1)
                if sec != "Variables" and key in vnames and key not in own.get(sec, set()):
                    v.append(("variable_leaks_into_section", "--list-items shows %r although %s is only defined in [Variables]\n%s" % (
                        label, key, ctx)))
                    break
        except ConfigurationException:
            pass
        except Exception as e:
            v.append(("listing:exception:%s@%s" % (type(e).__name__, libroute.innermost_atsim_frame(e)), "%r\n%s" % (e, ctx)))
    # the same file read again, in this process, after the entries its ${SECTION:KEY} place-holders point at were
    # edited: a place-holder stands for what the referenced entry holds NOW
    consts = [e for n, e in withvars if n == "Constants"]
    if consts and not v and case.get("route") not in ("cli",):
        edits = {}
        for k, tok in consts[0]:
            if re.fullmatch(r"-?[0-9]+(\.[0-9]+)?", tok):
                edits[k] = tok + "5"
        if edits:
            with2 = [[n, [[k, (edits.get(k, val) if n == "Constants" else val)] for k, val in e]] for n, e in withvars]
            hand2 = [[n, [[k, val] for k, val in e]] for n, e in with2]
            for n, e in hand2:
                for ent in e:
                    for k, alt in edits.items():
                        ent[1] = ent[1].replace("${Constants:%s}" % k, alt)
            text2, ptext2 = anymodel.text_of(with2), anymodel.text_of(hand2)
            want2 = anymodel.outcome(ptext2, target)
            if want2[0] != "exception":
                cls.append("reread_after_referenced_entry_changed")
                got2 = anymodel.outcome(text2, target)
                if not anymodel.same_outcome(got2, want2):
                    v.append(("output_differs:referenced_entry_changed", "the file was read, [Constants] edited (%r) and the file read again "
                              "in the same process: %r\nwith the [Constants] place-holders substituted by hand: %r\n"
                              "--- file ---\n%s" % (edits, got2[:1] + (got2[1][:300],), want2[:1] + (want2[1][:300],), text2)))
    nt = ("lifted>=1" in cls and want[0] == "ok") or "foreign_option_name" in cls
    return {"v": v, "cls": cls, "nt": nt}


def extra(tier, seed, record):
    import hypothesis
    from hypothesis import given, settings, HealthCheck, Phase
    n = 5 if tier == "quick" else 60
    done = {"n": 0}

    @hypothesis.seed(seed * 7919 + 37)
    @settings(max_examples=n, database=None, deadline=None, suppress_health_check=list(HealthCheck), phases=[Phase.generate])
    @given(_case())
    def run(case):
        case = dict(case, route="cli")
        res = check_case(case)
        if not res.get("skip"):
            done["n"] += 1
        record(case, res)
    run()
    return {"cli_runs": done["n"]}
