"""C04 -- Finnis-Sinclair densities land in the slot the consumer reads for that pair.

Generated: Finnis-Sinclair models over 1..4 species with an independently drawn
density for every ordered pair (about 1/6 left undeclared), embedding entries in
any order, any subset missing; small clusters of 3..6 atoms on grid nodes.
Routes: writeSetFLFinnisSinclair / SetFL_FS_EAMTabulation, writeTABEAMFinnisSinclair
/ TABEAM_FinnisSinclair_EAMTabulation, Excel_FinnisSinclair_EAMTabulation, and the
potable targets setfl_fs, DL_POLY_EAM_fs, excel_eam_fs.
Oracle: (i) slot check -- the function declared 'central A, neighbour B' occupies
the position the format assigns to it, zeros for undeclared combinations;
(ii) cluster check -- per-atom embedding densities recomputed *from the file* by
the consuming code's lookup rule equal sum_j rho_{t_i t_j}(r_ij) from the model.
"""
import io

from hypothesis import strategies as st

from vlib import bootstrap, gen, model, libroute, eamtab, parsers, compare, build_api
from vlib.num import DomainError, EN
from checks import c03_setfl, c05_tabeam

bootstrap.activate()
import atsim.potentials as ap  # noqa: E402
from atsim.potentials.eam_tabulation import (SetFL_FS_EAMTabulation, TABEAM_FinnisSinclair_EAMTabulation,  # noqa: E402
                                             Excel_FinnisSinclair_EAMTabulation)

ID = "C04"
LEVEL = "exploration"
RULE = ("Hypothesis builds a Finnis-Sinclair model (1..4 species, independent density per ordered pair, ~1/6 "
        "undeclared, shuffled entries), a format (setfl_fs, DL_POLY_EAM_fs, excel_eam_fs), a route (API function, "
        "API class, potable) and a cluster of 3..6 typed atoms on grid nodes. Each written file is read back by "
        "an independent parser; every density slot and the per-atom densities of the cluster computed by the "
        "consumer's lookup rule are compared with the model. A rewrite stratum writes the same objects 2..3 times while one density callable is "
        "re-parametrised in between. Non-trivial = >= 2 species and some pair whose A->B "
        "and B->A definitions differ (or one is undeclared); distinct = canonical JSON.")
ASSUMPTIONS = [
    "consumer rules: LAMMPS eam/fs reads the density at an i-site from a j-neighbour from array number type(i) "
    "inside the element block of type(j) (pair_eam: rho[i] += rhor[type2rhor[jtype][itype]]); DL_POLY EEAM block "
    "'dens A B' and the Excel column 'A->B' hold the density at an A site from a B neighbour",
    "cluster atoms sit on grid nodes so no interpolation enters",
    "rewrite histories (a density callable re-parametrised between writes) re-use one tabulation object only for "
    "the text formats: the Excel classes expose a public `workbook` property that is built once and kept by design "
    "(a user may edit it before write()), so for Excel every write of a history uses a fresh tabulation object over "
    "the same callables",
]
REQUIRED = {"format:setfl_fs": 30, "format:DL_POLY_EAM_fs": 30, "format:excel_eam_fs": 30, "asymmetric": 60,
            "undeclared_combination": 30, "route:potable": 30, "route:function": 8, "route:class": 20, "rewrite:2_writes": 2}
FORMATS = ["setfl_fs", "DL_POLY_EAM_fs", "excel_eam_fs"]


@st.composite
def _case(draw, fmt, n_min=1, n_max=4, near_copies=False):
    routes = ["class", "potable"] + (["function"] if fmt != "excel_eam_fs" else [])
    route = draw(st.sampled_from(routes))
    m = draw(gen.eam_model("fs", n_min, n_max, depth=1, pycallables=(route != "potable"), near_copies=near_copies))
    if near_copies:
        m["near_copies"] = True
    m["route"] = route
    m["format"] = fmt
    m["int_zero"] = draw(st.integers(0, 2)) == 0      # Python callables returning the int 0 where they vanish
    g = m["grid"]
    if g["nr"] < 4:
        g["nr"] = 4 + g["nr"]
    els = sorted(eamtab.element_set(m))
    natoms = draw(st.integers(3, 6))
    nodes = draw(st.lists(st.integers(0, 3 * g["nr"]), min_size=natoms, max_size=natoms, unique=True))
    types = [draw(st.sampled_from(els)) for _ in nodes]
    if len(els) >= 2 and len(set(types)) < 2:
        types[0], types[1] = els[0], els[1]
    m["cluster"] = {"nodes": nodes, "types": types}
    return m


KS = [1.0, 2.0, -1.0, 0.5, 3.0, 0.1, -2.5]


@st.composite
def _rewrite(draw, fmt):
    """the same model objects written several times while one declared density callable is re-parametrised in
    between: every file must hold the functions as they are when it is written"""
    m = draw(_case(fmt, 1, 3))
    m["route"] = draw(st.sampled_from(["class", "function"] if fmt != "excel_eam_fs" else ["class"]))
    ks = draw(st.lists(st.sampled_from(KS), min_size=2, max_size=3).filter(lambda l: all(a != b for a, b in zip(l, l[1:]))))
    m["rewrite"] = {"which": draw(st.integers(0, len(m["density_fs"]) - 1)), "ks": ks,
                    "same_object": draw(st.booleans()) and fmt != "excel_eam_fs"}
    return m


def strategy(tier):
    return _case("setfl_fs")


def strata(tier):
    out = []
    for f in FORMATS:
        out.append((f + ":1-2", _case(f, 1, 2), 1))
        out.append((f + ":2-4", _case(f, 2, 4), 3))
    out.append(("rewrite", st.sampled_from(FORMATS).flatmap(_rewrite), 1))
    # directions / elements whose functions are an earlier one with a boundary moved or one parameter changed
    out.append(("near_copies", st.sampled_from(FORMATS).flatmap(lambda f: _case(f, 2, 3, True)), 1.5))
    return out


def budget(tier):
    if tier == "quick":
        return {"examples": 180}
    return {"examples": 700, "shards": 16}


def _asym(m):
    lk = eamtab.lookup(m)["density_fs"]
    els = sorted(eamtab.element_set(m))
    for i, a in enumerate(els):
        for b in els[i + 1:]:
            if lk.get((a, b)) != lk.get((b, a)):
                return True
    return False


def _cluster_model(m, ref, dr, nr):
    """per-atom densities from the model: sum_j rho_{t_i t_j}(r_ij) for r_ij on grid nodes inside the table"""
    lk = eamtab.lookup(m)["density_fs"]
    nodes, types = m["cluster"]["nodes"], m["cluster"]["types"]
    out = []
    for i in range(len(nodes)):
        tot = EN(0.0)
        for j in range(len(nodes)):
            if i == j:
                continue
            k = abs(nodes[i] - nodes[j])
            if k > nr - 1:
                continue
            pd = lk.get((types[i], types[j]))
            if pd is not None and eamtab.near_boundary(ref, pd, k * dr):
                return None
            tot = tot + eamtab.ref_value(ref, pd, k * dr)
        out.append(tot)
    return out


def _cluster_file(m, lookup, nr):
    """the same sum computed from file arrays; lookup(central type, neighbour type) -> array over grid nodes"""
    nodes, types = m["cluster"]["nodes"], m["cluster"]["types"]
    out = []
    for i in range(len(nodes)):
        tot = 0.0
        for j in range(len(nodes)):
            if i == j:
                continue
            k = abs(nodes[i] - nodes[j])
            if k > nr - 1:
                continue
            tot += lookup(types[i], types[j])[k]
        out.append(tot)
    return out


def _verify_excel(m, data, ctx, ref):
    v = []
    try:
        wb = parsers.xlsx(data)
    except Exception as e:
        return [("format", "workbook unreadable: %r" % (e,))], None
    if "EAM-Density" not in wb:
        return [("format", "no EAM-Density sheet: %r" % (sorted(wb),))], None
    sh = wb["EAM-Density"]
    hdr = sh["header"]
    nr, dr, nrho, drho = eamtab.grids(m)
    els = sorted(eamtab.element_set(m))
    want_cols = set("%s->%s" % (a, b) for a in els for b in els)
    if hdr[0] != "r" or set(hdr[1:]) != want_cols or len(hdr) != len(want_cols) + 1:
        return [("excel:columns", "EAM-Density header %r, expected r and %r\n%s" % (hdr, sorted(want_cols), ctx))], None
    if len(sh["rows"]) != nr:
        return [("excel:rows", "%d rows, grid has %d\n%s" % (len(sh["rows"]), nr, ctx))], None
    lk = eamtab.lookup(m)["density_fs"]
    cols = {}
    for c, name in enumerate(hdr):
        cols[name] = [row[c] for row in sh["rows"]]
    for i in compare.sample_rows(nr):
        if abs(cols["r"][i] - i * dr) > 1e-12 * max(1.0, i * dr):
            v.append(("excel:r_column", "row %d r=%r, expected %r" % (i, cols["r"][i], i * dr)))
            break
    for name in hdr[1:]:
        a, b = name.split("->")
        pd = lk.get((a, b))
        for i in compare.sample_rows(nr):
            x = i * m["grid"]["cutoff"] / float(nr - 1)        # spreadsheet rows sit at i*cutoff/(nr-1)
            if eamtab.near_boundary(ref, pd, x):
                continue
            w = eamtab.ref_value(ref, pd, x)
            got = cols[name][i]
            if got is None or not compare.close(("e", 16), float(got), w):
                v.append(("slot:excel", "column %s row %d: %r, declared %s->%s gives %r (declared=%s)\n%s" % (
                    name, i, got, a, b, w.v, pd is not None, ctx)))
                break
    return v, (lambda ti, tj: cols["%s->%s" % (ti, tj)])


def _write_api(m, fmt, route, objs=None, tab=None):
    """-> (output, tabulation object or None)"""
    pairs, eams = objs
    g = m["grid"]
    nr, dr, nrho, drho = eamtab.grids(m)
    args = (pairs, eams, g["cutoff"], g["nr"], g["cutoff_rho"], g["nrho"])
    if fmt == "excel_eam_fs":
        fp = io.BytesIO()
        tab = tab or Excel_FinnisSinclair_EAMTabulation(*args)
        tab.write(fp)
    else:
        fp = io.StringIO()
        if route == "function":
            fn = ap.writeSetFLFinnisSinclair if fmt == "setfl_fs" else ap.writeTABEAMFinnisSinclair
            fn(nrho, drho, nr, dr, eams, pairs, out=fp)
        else:
            cl = SetFL_FS_EAMTabulation if fmt == "setfl_fs" else TABEAM_FinnisSinclair_EAMTabulation
            tab = tab or cl(*args)
            tab.write(fp)
    return fp.getvalue(), tab


def _verify(m, fmt, out, ctx, ref, want_cluster):
    nr, dr, nrho, drho = eamtab.grids(m)
    v = []
    lookup = None
    try:
        if fmt == "setfl_fs":
            v = [("slot:setfl" if b == "density_fs" else b, d) for b, d in c03_setfl.verify_setfl(m, out, None, ctx, fs=True)]
            try:
                t = parsers.setfl(out, fs=True)
                # consumer rule: block of the neighbour's element, array of the central atom's element
                lookup = lambda ti, tj: t["blocks"][tj]["density"][ti]  # noqa: E731
            except parsers.FormatError:
                pass
        elif fmt == "DL_POLY_EAM_fs":
            v = [("slot:tabeam" if b == "value:dens" else b, d) for b, d in c05_tabeam.verify(m, out, ctx)]
            try:
                t = parsers.tabeam(out)
                dens = dict((tuple(b["species"]), b["values"]) for b in t["blocks"] if b["kind"] == "dens")
                lookup = lambda ti, tj: dens[(ti, tj)]  # noqa: E731
            except parsers.FormatError:
                pass
        else:
            v, lookup = _verify_excel(m, out, ctx, ref)
        if lookup is not None and want_cluster is not None:
            unit = 0.0      # every format carries full precision (TABEAM since F51)
            got = _cluster_file(m, lookup, nr)
            for i, (g_, w) in enumerate(zip(got, want_cluster)):
                tol = 256 * 2.3e-16 * w.e + 1e-12 * abs(w.v) + unit * len(got) + 1e-300
                if not abs(g_ - w.v) <= tol:
                    v.append(("cluster:" + fmt, "atom %d (type %s) of cluster %r: density %r from the file by the "
                              "consumer's rule, %r from the model\n%s" % (i, m["cluster"]["types"][i], m["cluster"], g_, w.v, ctx)))
                    break
    except KeyError as e:
        v.append(("cluster:missing_slot", "consumer lookup failed for %r\n%s" % (e, ctx)))
    return v


def _check_rewrite(m, cls):
    import copy
    fmt, route, rw = m["format"], m["route"], m["rewrite"]
    cls = cls + ["rewrite:%d_writes" % len(rw["ks"]), "rewrite:" + ("one_object" if rw["same_object"] and route == "class" else "same_callables")]
    a, b, pd = m["density_fs"][rw["which"]]
    holders = []

    def wrap(kind, key, f):
        if kind == "density_fs" and key == (a, b):
            holders.append(build_api.scaled(f))
            return holders[-1]
        return f
    objs = eamtab.api_objects(m, wrap=wrap)
    tab = None
    v = []
    nt = False
    for n, k in enumerate(rw["ks"]):
        for h in holders:
            h.k = k
        mm = copy.deepcopy(m)
        mm["density_fs"][rw["which"]][2] = build_api.scaled_potdef(pd, k)
        ctx = "write number %d from the same model objects, density %s->%s re-parametrised to k=%r before it\n%s" % (
            n + 1, a, b, k, eamtab.potable_text(mm, fmt))
        ref = model.Ref(mm["env"])
        nr, dr, nrho, drho = eamtab.grids(mm)
        try:
            c05_tabeam._domain(mm, ref)
            want_cluster = _cluster_model(mm, ref, dr, nr)
        except (DomainError, OverflowError, ZeroDivisionError):
            return {"v": [], "cls": cls, "nt": False, "skip": True}
        try:
            out, t2 = _write_api(mm, fmt, route, objs[:2], tab if rw["same_object"] else None)
            tab = t2
        except Exception as e:
            return {"v": [("rewrite:exception:%s@%s" % (type(e).__name__, libroute.innermost_atsim_frame(e)), "%r\n%s" % (e, ctx))],
                    "cls": cls, "nt": False}
        try:
            vv = _verify(mm, fmt, out, ctx, ref, want_cluster)
        except DomainError:
            return {"v": [], "cls": cls, "nt": False, "skip": True}
        v += [(("rewrite:" + bk) if n else bk, d) for bk, d in vv]
        nt = nt or n > 0
        if v:
            break
    return {"v": v, "cls": cls, "nt": nt}


def check_case(m):
    fmt, route = m["format"], m["route"]
    cls = ["format:" + fmt, "route:" + route] + (["near_copies"] if m.get("near_copies") else [])
    if m.get("int_returns") and not str(route).startswith(("potable", "main", "cli")):
        cls.append("callables_return_ints")
    els = eamtab.element_set(m)
    asym = len(els) >= 2 and _asym(m)
    if asym:
        cls.append("asymmetric")
    if len(m["density_fs"]) < len(els) ** 2:
        cls.append("undeclared_combination")
    if m.get("rewrite"):
        return _check_rewrite(m, cls)
    ctx = eamtab.potable_text(m, fmt)
    ref = model.Ref(m["env"])
    nr, dr, nrho, drho = eamtab.grids(m)
    try:
        c05_tabeam._domain(m, ref)
        want_cluster = _cluster_model(m, ref, dr, nr)
    except (DomainError, OverflowError, ZeroDivisionError):
        return {"v": [], "cls": cls, "nt": False, "skip": True}
    try:
        if route == "potable":
            out = libroute.write_text(libroute.read_text(ctx))
        else:
            out, _ = _write_api(m, fmt, route, eamtab.api_objects(m, int_zero=bool(m.get("int_zero")))[:2])
            if m.get("int_zero"):
                cls.append("int_typed_zeros")
    except Exception as e:
        return {"v": [("write:exception:%s@%s" % (type(e).__name__, libroute.innermost_atsim_frame(e)), "%r\n%s" % (e, ctx))],
                "cls": cls, "nt": False}
    try:
        v = _verify(m, fmt, out, ctx, ref, want_cluster)
    except DomainError:
        return {"v": [], "cls": cls, "nt": False, "skip": True}
    return {"v": v, "cls": cls, "nt": asym}
