"""C16 -- malformed models give configuration errors; valid models are never rejected.

Generated: a well-formed whole model (any target) and at most ONE structural
malformation drawn from a catalogue covering every section of the input format
(see OPERATORS), applied at a generated site; plus the valid side: the unmutated
model and every option value the reference manual lists as valid.
Oracle (outcome class): unmutated -> tabulates without any exception; mutated -> a
ConfigurationException subclass at read or write, never another exception type,
never a written table; CLI sample -> exit status 2 and 'configuration error - '.
The thorough tier adds a coverage-guided atheris campaign over the same oracle.
"""
import io
import os
import subprocess
import sys
import time

from hypothesis import strategies as st

from vlib import bootstrap, gen, libroute, anymodel

bootstrap.activate()

ID = "C16"
LEVEL = "exploration"
RULE = ("Operator-stratified Hypothesis generation: a well-formed whole model for a random target (made to contain "
        "the construct an operator needs: a referenced custom form, a referenced table form, a spline, a trans) "
        "and one malformation operator from a catalogue of 60+ applied at a generated site; valid-side strata use "
        "the unmutated model and every documented target spelling. Non-trivial = a mutated case whose unmutated "
        "model is accepted (otherwise skipped), or a valid-side case with >= 2 functions; distinct = canonical JSON.")
ASSUMPTIONS = [
    "only definitely malformed mutations are generated; debatable ones (nr: 2, pow() with one argument, an empty "
    "species name, a malformed custom form that nothing references) are excluded",
    "a malformed custom formula is detected when it is first evaluated: the error may surface at write time, the "
    "oracle accepts it at read or write as long as nothing was written",
]
SPLINE_OK = "spline(as.buck 1000.0 0.3 0.0 >0.8 exp_spline >1.4 as.buck 0.0 1.0 32.0)"
BUCK4_OK = "spline(as.buck 1000.0 0.3 0.0 >0.8 buck4_spline 1.1 >1.4 as.buck 0.0 1.0 32.0)"

# operator -> (kind, payload).  kind 'value': replace the value of a potential-definition entry.
VALUE_OPS = {
    "unknown_form": "as.nosuchform 1.0 2.0",
    "unknown_custom_form": "nosuchform 1.0",
    "unknown_modifier": "summ(as.constant 1, as.constant 2)",
    "too_few_params": "as.buck 1000.0 0.3",
    "too_many_params": "as.buck 1000.0 0.3 32.0 4.0",
    "params_to_zero_form": "as.zero 1.0",
    "non_numeric_param": "as.buck 1000.0 abc 32.0",
    "unbalanced_paren": "sum(as.constant 1, as.constant 2",
    "extra_paren": "sum(as.constant 1, as.constant 2))",
    "empty_modifier": "sum()",
    "empty_value": "",
    "dangling_range": "as.constant 1 >2",
    "range_without_number": "> as.constant 1",
    "bad_range_marker": "=>1 as.constant 1",
    "spline_one_part": "spline(as.buck 1000.0 0.3 0.0)",
    "spline_two_parts": "spline(as.buck 1000.0 0.3 0.0 >0.8 exp_spline)",
    "spline_four_parts": "spline(as.buck 1000.0 0.3 0.0 >0.8 exp_spline >1.4 as.buck 0.0 1.0 32.0 >3 as.zero)",
    "spline_two_arguments": "spline(as.buck 1000.0 0.3 0.0 >0.8 exp_spline >1.4 as.buck 0.0 1.0 32.0, as.zero)",
    "spline_exp_with_params": "spline(as.buck 1000.0 0.3 0.0 >0.8 exp_spline 1.0 >1.4 as.buck 0.0 1.0 32.0)",
    "spline_buck4_no_rmin": "spline(as.buck 1000.0 0.3 0.0 >0.8 buck4_spline >1.4 as.buck 0.0 1.0 32.0)",
    "spline_buck4_two_params": "spline(as.buck 1000.0 0.3 0.0 >0.8 buck4_spline 1.0 1.1 >1.4 as.buck 0.0 1.0 32.0)",
    "spline_rmin_above_attach": "spline(as.buck 1000.0 0.3 0.0 >0.8 buck4_spline 3.0 >1.4 as.buck 0.0 1.0 32.0)",
    "spline_rmin_below_detach": "spline(as.buck 1000.0 0.3 0.0 >0.8 buck4_spline 0.5 >1.4 as.buck 0.0 1.0 32.0)",
    "spline_rmin_equals_detach": "spline(as.buck 1000.0 0.3 0.0 >0.8 buck4_spline 0.8 >1.4 as.buck 0.0 1.0 32.0)",
    "spline_rmin_equals_attach": "spline(as.buck 1000.0 0.3 0.0 >=0.8 buck4_spline 1.4 >=1.4 as.buck 0.0 1.0 32.0)",
    "spline_ranges_not_increasing": "spline(as.buck 1000.0 0.3 0.0 >1.4 exp_spline >0.8 as.buck 0.0 1.0 32.0)",
    "spline_equal_ranges": "spline(as.buck 1000.0 0.3 0.0 >1.4 exp_spline >1.4 as.buck 0.0 1.0 32.0)",
    "spline_unknown_type": "spline(as.buck 1000.0 0.3 0.0 >0.8 cubic_spline >1.4 as.buck 0.0 1.0 32.0)",
    "trans_one_argument": "trans(as.buck 1000.0 0.3 32.0)",
    "trans_three_arguments": "trans(as.buck 1000.0 0.3 32.0, as.constant 1, as.constant 2)",
    "trans_second_not_constant": "trans(as.buck 1000.0 0.3 32.0, as.polynomial 1)",
    "trans_constant_two_params": "trans(as.buck 1000.0 0.3 32.0, as.constant 1 2)",
    "trans_constant_no_param": "trans(as.buck 1000.0 0.3 32.0, as.constant)",
    "trans_second_is_modifier": "trans(as.buck 1000.0 0.3 32.0, sum(as.constant 2))",
    "buck4_rmin_below_detach": "as.buck4 1000.0 0.3 32.0 1.0 0.5 2.0",
    "buck4_rmin_equals_detach": "as.buck4 1000.0 0.3 32.0 1.0 1.0 2.0",
    "buck4_rmin_equals_attach": "as.buck4 1000.0 0.3 32.0 1 2 2",
    "buck4_rmin_above_attach": "as.buck4 1000.0 0.3 32.0 1.0 2.5 2.0",
    "buck4_breaks_reversed": "as.buck4 1000.0 0.3 32.0 2.0 1.5 1.0",
    "number_two_dots": "as.polynomial 1.2.3",
    "number_two_dots_in_range": "as.constant 1.0 >1.5.5 as.zero",
    "number_overflows": "as.buck 1e999 0.3 32.0",
    "number_overflows_negative": "as.polynomial 1.0 -1E+400",
    "number_glued_to_signed_number": "as.buck 1000.0 0.3-32.0",
    "number_glued_plus": "as.polynomial 1.0 2+3",
    "trans_second_has_ranges": "trans(as.buck 1000.0 0.3 32.0, as.constant 1.0 >=1.5 as.constant 2.0)",
    "number_huge_integer": "as.constant 1" + "0" * 400,
    "number_other_script_digits": "as.constant \u0661\u0662",
    "number_other_script_range": "as.constant 12 >\u0661 as.zero",
    "spline_type_is_modifier": "spline(as.buck 1000.0 0.3 0.0 >0.8 sum(as.constant 1, as.constant 2) >1.4 as.buck 0.0 1.0 32.0)",
}
OTHER_OPS = [
    "unknown_target", "target_wrong_case", "grid_all_three", "grid_step_alone", "grid_negative_nr", "grid_zero_cutoff",
    "grid_nr_not_integer", "grid_dr_not_number", "grid_not_finite", "grid_three_with_zero", "dlpoly_nr_not_multiple_of_4",
    "pair_key_no_dash", "pair_key_three_species", "pair_key_empty_species", "missing_pair_section",
    "fs_key_without_arrow", "fs_key_two_arrows", "fs_key_empty_species", "species_key_empty_label",
    "formula_signature_trailing_text", "number_with_underscore", "placeholder_unresolvable_in_unread_entry",
    "grid_other_script_digits", "grid_blank_value", "grid_derived_not_finite", "species_not_finite", "species_malformed_in_pair_model", "formula_unused_unparsable", "formula_label_is_language_function",
    "table_named_like_pymath_function", "missing_embed_section", "missing_density_section",
    "species_without_data", "species_data_removed", "species_key_without_dot", "species_mass_not_number", "species_number_not_integer",
    "custom_wrong_arity", "table_form_with_params", "formula_bad_signature", "formula_signature_no_paren",
    "formula_unparsable", "formula_undefined_symbol", "formula_unknown_function", "formula_calls_wrong_arity",
    "formula_param_reserved_word", "formula_param_not_identifier", "formula_params_differ_in_case",
    "formula_labels_differ_in_case", "table_label_differs_in_case", "grid_single_row", "ini_not_text", "table_empty_data",
    "table_non_numeric", "table_xy_odd", "table_x_y_mismatch", "table_x_only", "table_y_only", "table_xy_and_x",
    "table_no_data", "table_not_finite", "table_x_not_increasing", "table_x_repeated", "table_too_short", "table_unknown_interpolation",
    "placeholder_unresolvable", "placeholder_bad_syntax", "placeholder_missing_section", "placeholder_cycle",
    "placeholder_self_reference",
    "ini_no_header", "ini_bare_line", "ini_unterminated_header",
]
OPERATORS = sorted(VALUE_OPS) + OTHER_OPS
VALID_TARGETS = ["DL_POLY", "DLPOLY", "DL_POLY_EAM_fs", "DL_POLY_EAM", "eam_adp", "excel", "excel_eam", "excel_eam_fs",
                 "GULP", "LAMMPS_eam_alloy", "setfl", "LAMMPS", "setfl_fs", "lammps_eam_alloy"]
REQUIRED = dict(("op:" + o, 2) for o in OPERATORS)
REQUIRED.update({"valid_model": 25, "valid_target_spelling": 14})
POTDEF_SECTIONS = ("Pair", "EAM-Embed", "EAM-Density", "EAM-ADP-Dipole", "EAM-ADP-Quadrupole")


@st.composite
def _case(draw, op, light=False):
    targets = None
    if op in ("fs_key_without_arrow", "fs_key_two_arrows", "fs_key_empty_species"):
        targets = ["setfl_fs", "DL_POLY_EAM_fs", "excel_eam_fs"]
    elif op in ("missing_embed_section", "missing_density_section", "species_without_data", "species_mass_not_number",
                "species_number_not_integer", "species_key_without_dot", "species_data_removed", "species_key_empty_label", "species_not_finite"):
        targets = sorted(gen.EAM_TARGETS)
    elif op == "dlpoly_nr_not_multiple_of_4":
        targets = ["DLPOLY", "DL_POLY"]
    elif op == "species_malformed_in_pair_model":
        targets = list(gen.PAIR_TARGETS)
    elif op == "target_wrong_case":
        # the documented alternative spellings are spellings too: 'dl_poly' or 'LAMMPS_EAM_ALLOY' name no target
        targets = draw(st.sampled_from([["DL_POLY"], ["lammps_eam_alloy"], None]))
    if light:
        # small models for the byte-budgeted coverage-guided campaign (hypothesis' fuzz_one_input caps the
        # choice buffer at 8 kB, which the full generator exceeds)
        m = draw(gen.any_model(targets, 1, 2, depth=0, tables=False, customs=False))
    else:
        m = draw(gen.any_model(targets, 1, 3, depth=1, tables=False,
                               pool=gen.NOT_ELEMENTS + ["Al"] if op == "species_data_removed" else None))
    return {"model": m, "op": op, "site": draw(st.integers(0, 60)), "route": draw(st.sampled_from(["inproc", "inproc", "main"]))}


@st.composite
def _valid_case(draw, spelling=None):
    if spelling is None:
        m = draw(gen.any_model(None, 1, 3, depth=2))
        return {"model": m, "op": None, "site": 0, "route": draw(st.sampled_from(["inproc", "inproc", "main"]))}
    base = "setfl" if spelling.lower() == "lammps_eam_alloy" else spelling
    m = draw(gen.any_model([base if base in gen.PAIR_TARGETS or base in gen.EAM_TARGETS else "setfl"], 1, 3, depth=1))
    m["target"] = spelling
    return {"model": m, "op": None, "site": 0, "route": "inproc", "spelling": spelling}


def strategy(tier):
    return _valid_case()


def strata(tier):
    out = [("valid", _valid_case(), 24)]
    for sp in VALID_TARGETS:
        out.append(("valid_target:" + sp, _valid_case(sp), 1))
    for op in OPERATORS:
        out.append(("op:" + op, _case(op), 3))
    return out


def budget(tier):
    if tier == "quick":
        return {"examples": 340}
    return {"examples": 1600, "shards": 16}


# ---------------------------------------------------------------------------
def _sec(secs, name):
    for s in secs:
        if s[0] == name:
            return s
    return None


def _potdef_entries(secs):
    return [(s, i) for s in secs if s[0] in POTDEF_SECTIONS for i in range(len(s[1]))]


def _ensure_custom(secs, site):
    """a custom form 'mutf(r, a)' that a [Pair]-like entry references; returns (form entry list, index)"""
    pf = _sec(secs, "Potential-Form")
    if pf is None:
        pf = ["Potential-Form", []]
        secs.append(pf)
    pf[1].append(["mutf(r, a)", "a * exp(-r) + 1.0"])
    # a site that is certainly evaluated: pairs between species without embedding/density entries are
    # ignored by the EAM writers and a formula is only parsed when first evaluated
    ents = [e for e in _potdef_entries(secs) if e[0][0] == "EAM-Embed"] or \
        [e for e in _potdef_entries(secs) if e[0][0] == "Pair"]
    s, i = ents[site % len(ents)]
    s[1][i][1] = "mutf 2.0"
    return pf, len(pf[1]) - 1


def _ensure_table(secs, site):
    t = ["Table-Form:muttab", [["x", "0.0 1.0 2.0 3.0 4.0"], ["y", "1.0 0.5 0.25 0.1 0.0"]]]
    secs.append(t)
    ents = _potdef_entries(secs)
    s, i = ents[site % len(ents)]
    s[1][i][1] = "muttab"
    return t


def mutate(case):
    """-> (text, description) of the malformed file, or None when the operator has no site"""
    m, op, site = case["model"], case["op"], case["site"]
    kind = m.get("kind", "pair")
    if op in ("fs_key_without_arrow", "fs_key_two_arrows") and kind != "fs":
        return None
    if op in ("missing_embed_section", "missing_density_section", "species_without_data", "species_mass_not_number",
              "species_number_not_integer", "species_key_without_dot", "species_data_removed") and kind == "pair":
        return None
    if op == "dlpoly_nr_not_multiple_of_4" and m["target"] not in ("DLPOLY", "DL_POLY"):
        return None
    secs = anymodel.sections_of(m)
    tab = _sec(secs, "Tabulation")

    def settab(k, v):
        for e in tab[1]:
            if e[0] == k:
                e[1] = v
                return
        tab[1].append([k, v])

    def deltab(k):
        tab[1][:] = [e for e in tab[1] if e[0] != k]

    if op in VALUE_OPS:
        ents = _potdef_entries(secs)
        if not ents:
            return None
        s, i = ents[site % len(ents)]
        s[1][i][1] = VALUE_OPS[op]
        return anymodel.text_of(secs), "%s entry %r = %r" % (s[0], s[1][i][0], VALUE_OPS[op])
    if op == "unknown_target":
        settab("target", m["target"] + "X")
    elif op == "target_wrong_case":
        t = m["target"]
        if t == "lammps_eam_alloy" and site % 2:
            t = "LAMMPS_eam_alloy"
        variants = [x for x in (t.swapcase(), t.lower(), t.upper(), t.capitalize(), t.title()) if x not in VALID_TARGETS]
        settab("target", variants[(site // 2) % len(variants)])
    elif op == "grid_all_three":
        settab("nr", "11"), settab("dr", "0.1"), settab("cutoff", "1.0")
    elif op == "grid_step_alone":
        deltab("nr"), deltab("cutoff"), settab("dr", "0.1")
    elif op == "grid_negative_nr":
        settab("nr", "-8")
    elif op == "grid_zero_cutoff":
        deltab("dr"), settab("cutoff", "0.0")
    elif op == "grid_not_finite":
        deltab("dr")
        settab(["cutoff", "cutoff", "dr"][site % 3], ["inf", "nan", "-inf", "Infinity", "NaN"][site % 5])
        if site % 3 == 2:
            [deltab("cutoff"), deltab("nr")][site % 2]
    elif op == "grid_three_with_zero":
        settab("nr", "11"), settab("dr", "0.1"), settab("cutoff", "1.0")
        settab(["nr", "cutoff", "dr"][site % 3], ["0", "0.0"][site % 2] if site % 3 else "0")
    elif op == "grid_nr_not_integer":
        settab("nr", "10.5")
    elif op == "grid_derived_not_finite":
        # the values given are finite, what follows from them is not
        deltab("nr"), deltab("dr"), deltab("cutoff")
        if site % 3 == 0:
            settab("cutoff", "10"), settab("dr", "1e-320")
        elif site % 3 == 1:
            settab("nr", "3"), settab("dr", "1e308")
        else:
            settab("cutoff", "1e308"), settab("dr", "1e-10")
    elif op == "species_not_finite":
        sp = _sec(secs, "Species")
        if sp is None:
            sp = ["Species", []]
            secs.append(sp)
        el = m["elements"][site % len(m["elements"])]
        key = "%s.%s" % (el, ["atomic_mass", "lattice_constant", "atomic_mass"][site % 3])
        sp[1][:] = [e for e in sp[1] if "".join(e[0].split()) != key]
        sp[1].append([key, ["nan", "inf", "-inf", "NaN"][site % 4]])
    elif op == "grid_blank_value":
        # an option that is present with an empty value is not an absent option: there is nothing to convert
        key = ["nr", "cutoff", "target", "nr", "cutoff"][site % 5]
        if key in ("nr", "cutoff"):
            deltab("dr")
        settab(key, "")
    elif op == "grid_other_script_digits":
        # int() and float() read the digits of any script: '\u0661\u0662' is 12 to them, not to the input format
        deltab("dr")
        if site % 2:
            settab("nr", "\u0661\u0662")
        else:
            settab("cutoff", "\u0665.\u0660")
    elif op == "species_malformed_in_pair_model":
        # [Species] is not read for pair targets; what it holds is still part of the model
        if kind != "pair":
            return None
        sp = _sec(secs, "Species")
        if sp is None:
            sp = ["Species", []]
            secs.append(sp)
        sp[1].append([["Al.atomic_mass", "abc"], ["foo", "1"], ["Al.atomic_number", "13.5"], [".atomic_mass", "2"]][site % 4])
    elif op == "formula_unused_unparsable":
        # a formula no entry refers to (formulas are parsed at first use)
        pf = _sec(secs, "Potential-Form")
        if pf is None:
            pf = ["Potential-Form", []]
            secs.append(pf)
        pf[1].insert(site % (len(pf[1]) + 1), [["unusedf(r, A)", "A*r+*"], ["unusedf(r, A)", "A*qzz + r"], ["unusedf(r)", "nosuchfn(r)"]][site % 3])
    elif op == "formula_label_is_language_function":
        # 'root', 'exp'... are functions of the formula language: such a label cannot be offered to other formulas
        pf, i = _ensure_custom(secs, site)
        name = ["root", "exp", "min", "clamp", "avg"][site % 5]
        pf[1][i][0] = "%s(r, a)" % name
        for s_, j in _potdef_entries(secs):
            if s_[1][j][1] == "mutf 2.0":
                s_[1][j][1] = "%s 2.0" % name
        # (refused when it is registered with another formula; on its own such a model is accepted and works)
        pf[1].append(["otherf(r)", "r + 1.0"])
    elif op == "table_named_like_pymath_function":
        _ensure_custom(secs, site)
        secs.append(["Table-Form:pymath.%s" % ["ceil", "floor", "fabs"][site % 3], [["x", "0.0 1.0 2.0 3.0 4.0"], ["y", "5.0 4.0 3.0 2.0 1.0"]]])
    elif op == "grid_dr_not_number":
        deltab("cutoff"), settab("dr", "fine")
    elif op == "dlpoly_nr_not_multiple_of_4":
        settab("nr", str(4 * (2 + site % 5) + 1 + site % 3))
    elif op in ("pair_key_no_dash", "pair_key_three_species", "pair_key_empty_species"):
        p = _sec(secs, "Pair")
        if not p or not p[1]:
            return None
        e = p[1][site % len(p[1])]
        a, b = e[0].split("-")
        if op == "pair_key_empty_species":
            e[0] = [a + "-", "-" + b, a + " - "][(site // 7) % 3]
        else:
            e[0] = (a + b) if op == "pair_key_no_dash" else "%s-%s-%s" % (a, b, a)
    elif op == "missing_pair_section":
        secs[:] = [s for s in secs if s[0] != "Pair"]
    elif op == "fs_key_empty_species":
        d = _sec(secs, "EAM-Density")
        e = d[1][site % len(d[1])]
        a, b = e[0].split("->")
        e[0] = [a + "->", "->" + b][(site // 7) % 2]
    elif op == "species_key_empty_label":
        sp = _sec(secs, "Species")
        if sp is None:
            sp = ["Species", []]
            secs.append(sp)
        sp[1].append([[".atomic_mass", m["elements"][0] + ".", ". atomic_mass"][site % 3], "12.0"])
    elif op == "number_with_underscore":
        # digit-group underscores are Python source syntax (int('1_0') == 10), not numbers of the input format
        how = site % 4
        sp = _sec(secs, "Species")
        if how == 2 and sp and any(k.endswith(("atomic_mass", "lattice_constant")) for k, _ in sp[1]) and m["kind"] != "pair":
            e = [e for e in sp[1] if e[0].endswith(("atomic_mass", "lattice_constant"))][0]
            e[1] = "1_0.5"
        elif how == 3:
            t = _ensure_table(secs, site)
            t[1][1][1] = "1.0 0.5 1_0 0.1 0.0"
        elif how == 1:
            deltab("dr"), settab("cutoff", "1_0.0")
        else:
            deltab("dr"), settab("nr", "1_2")
    elif op == "placeholder_unresolvable_in_unread_entry":
        # the place-holder sits in an entry the tabulation never reads: a variable nothing refers to, or species
        # data of a pair model
        if site % 2 or m["kind"] != "pair":
            v = _sec(secs, "Variables")
            if v is None:
                v = ["Variables", []]
                secs.insert(0, v)
            v[1].append(["unusedv", "${nosuchvariable}"])
        else:
            sp = _sec(secs, "Species")
            if sp is None:
                sp = ["Species", []]
                secs.append(sp)
            sp[1].append(["Zq.atomic_mass", "${nosuchvariable}"])
    elif op in ("fs_key_without_arrow", "fs_key_two_arrows"):
        d = _sec(secs, "EAM-Density")
        e = d[1][site % len(d[1])]
        a, b = e[0].split("->")
        e[0] = a if op == "fs_key_without_arrow" else "%s->%s->%s" % (a, b, a)
        if op == "fs_key_without_arrow" and any(k == a for k, _ in d[1] if k is not e[0]):
            return None
    elif op == "missing_embed_section":
        secs[:] = [s for s in secs if s[0] != "EAM-Embed"]
    elif op == "missing_density_section":
        secs[:] = [s for s in secs if s[0] != "EAM-Density"]
    elif op == "species_without_data":
        # a label other models of this run do define (with their own [Species] data): what an earlier model declared
        # says nothing about this one
        emb = _sec(secs, "EAM-Embed")
        free = [x for x in gen.NOT_ELEMENTS + ["Qx"] if x not in m["elements"]]
        emb[1].append([free[site % len(free)], "as.constant 1"])
    elif op == "species_data_removed":
        sp = _sec(secs, "Species")
        from vlib import eamtab
        inv = [e for e in m["elements"] if e in gen.NOT_ELEMENTS and e in eamtab.element_set(m)]
        if sp is None or not inv:
            return None
        el = inv[site % len(inv)]
        sp[1][:] = [[k, val] for k, val in sp[1] if not k.startswith(el + ".")]
    elif op == "species_key_without_dot":
        sp = _sec(secs, "Species")
        if sp is None:
            sp = ["Species", []]
            secs.append(sp)
        sp[1].append([m["elements"][0] + "_atomic_mass", "12.0"])
    elif op in ("species_mass_not_number", "species_number_not_integer"):
        sp = _sec(secs, "Species")
        if sp is None:
            sp = ["Species", []]
            secs.append(sp)
        el = m["elements"][site % len(m["elements"])]
        key = "%s.%s" % (el, "atomic_mass" if op == "species_mass_not_number" else "atomic_number")
        sp[1][:] = [e for e in sp[1] if "".join(e[0].split()) != key]
        sp[1].append([key, "heavy" if op == "species_mass_not_number" else "13.5"])
    elif op == "custom_wrong_arity":
        _ensure_custom(secs, site)
        for s, i in _potdef_entries(secs):
            if s[1][i][1] == "mutf 2.0":
                s[1][i][1] = "mutf 2.0 3.0" if site % 2 else "mutf"
    elif op == "table_form_with_params":
        _ensure_table(secs, site)
        for s, i in _potdef_entries(secs):
            if s[1][i][1] == "muttab":
                s[1][i][1] = "muttab 1.0"
    elif op.startswith("formula_"):
        pf, i = _ensure_custom(secs, site)
        if op == "formula_bad_signature":
            pf[1][i][0] = "2mutf(r, a)"
            # the reference in [Pair] then names an unknown form as well: still one malformation of the file
        elif op == "formula_signature_no_paren":
            pf[1][i][0] = "mutf r a"
        elif op == "formula_signature_trailing_text":
            pf[1][i][0] = ["mutf(r, a) junk", "mutf(r, a)x", "mutf(r, a) (b)"][site % 3]
        elif op == "formula_unparsable":
            pf[1][i][1] = "a * exp(-r) +* 1.0"
        elif op == "formula_undefined_symbol":
            pf[1][i][1] = "a * exp(-r) + qzz"
        elif op == "formula_unknown_function":
            pf[1][i][1] = "a * nosuchfn(r)"
        elif op == "formula_param_reserved_word":
            pf[1][i][0] = "mutf(r, %s)" % ["exp", "if", "pi", "and"][site % 4]
            pf[1][i][1] = "2.0 * exp(-r) + 1.0"
        elif op == "formula_param_not_identifier":
            pf[1][i][0] = "mutf(r, %s)" % ["a-b", "2a", "a}"][site % 3]
            pf[1][i][1] = "2.0 * exp(-r) + 1.0"
        elif op == "formula_params_differ_in_case":
            # exprtk symbols are case-insensitive: A and a would be one variable
            pf[1][i][0] = "mutf(r, %s)" % ["A, a", "a, A", "Rho, rho", "a, R"][site % 4]
            pf[1][i][1] = "2.0 * exp(-r) + 1.0"
            for s_, j in _potdef_entries(secs):
                if s_[1][j][1] == "mutf 2.0":
                    s_[1][j][1] = "mutf 2.0 3.0"
        elif op == "formula_labels_differ_in_case":
            pf[1].insert(site % (len(pf[1]) + 1), ["MUTF(r, a)" if site % 2 else "Mutf(r, a)", "100 * a * r"])
        elif op == "formula_calls_wrong_arity":
            pf[1].append(["helperf(r, b, c)", "r + b + c"])
            pf[1][i][1] = "a * helperf(r, 1.0)"
    elif op == "table_label_differs_in_case":
        t = _ensure_table(secs, site)
        secs.append(["Table-Form:MutTab" if site % 2 else "Table-Form:MUTTAB", [["x", "0.0 1.0 2.0 3.0 4.0"], ["y", "5.0 4.0 3.0 2.0 1.0"]]])
    elif op == "grid_single_row":
        deltab("dr"), deltab("nr"), deltab("cutoff")
        if site % 2:
            settab("nr", "1"), settab("cutoff", "5.0")
        else:
            settab("cutoff", "1.0"), settab("dr", "5.0")
    elif op == "ini_not_text":
        return [b"\xff\xfe", b"\x80abc\n", b"[Pair]\nA-B : as.constant \xe9\xff\n"][site % 3] + anymodel.text_of(secs).encode(), op
    elif op == "table_empty_data":
        t = _ensure_table(secs, site)
        if site % 2:
            t[1][:] = [["xy", ""]]
        else:
            t[1][0][1], t[1][1][1] = "", ""
    elif op.startswith("table_"):
        t = _ensure_table(secs, site)
        if op == "table_non_numeric":
            t[1][1][1] = "1.0 0.5 abc 0.1 0.0"
        elif op == "table_xy_odd":
            t[1][:] = [["xy", "0.0 1.0 1.0 0.5 2.0 0.25 3.0 0.1 4.0"]]
        elif op == "table_x_y_mismatch":
            t[1][1][1] = "1.0 0.5 0.25 0.1"
        elif op == "table_x_only":
            del t[1][1]
        elif op == "table_y_only":
            del t[1][0]
        elif op == "table_xy_and_x":
            t[1].append(["xy", "0.0 1.0 1.0 0.5 2.0 0.25 3.0 0.1"])
        elif op == "table_no_data":
            t[1][:] = [["interpolation", "cubic_spline"]]
        elif op == "table_not_finite":
            bad = ["nan", "inf", "-inf", "NaN"][site % 4]
            if site % 3 == 0:
                t[1][:] = [["xy", "0.0 1.0 1.0 %s 2.0 0.25 3.0 0.1 4.0 0.0" % bad]]
            else:
                t[1][1][1] = "1.0 0.5 %s 0.1 0.0" % bad
        elif op == "table_x_not_increasing":
            t[1][0][1] = "0.0 2.0 1.0 3.0 4.0"
        elif op == "table_x_repeated":
            t[1][0][1] = "0.0 1.0 1.0 3.0 4.0"
        elif op == "table_too_short":
            t[1][0][1], t[1][1][1] = "0.0 1.0 2.0", "1.0 0.5 0.25"
        elif op == "table_unknown_interpolation":
            t[1].insert(0, ["interpolation", "quintic_spline"])
    elif op in ("placeholder_cycle", "placeholder_self_reference"):
        ents = _potdef_entries(secs)
        if not ents:
            return None
        s, i = ents[site % len(ents)]
        s[1][i][1] = "as.constant ${cyc_a}"
        if op == "placeholder_cycle":
            secs.insert(0, ["Variables", [["cyc_a", "${cyc_b}"], ["cyc_b", "${cyc_a}"]]])
        else:
            secs.insert(0, ["Variables", [["cyc_a", "${cyc_a}"]]])
    elif op.startswith("placeholder_"):
        ents = _potdef_entries(secs)
        if not ents:
            return None
        s, i = ents[site % len(ents)]
        s[1][i][1] = {"placeholder_unresolvable": "as.constant ${nosuchvariable}",
                      "placeholder_bad_syntax": "as.constant ${broken",
                      "placeholder_missing_section": "as.constant ${Nowhere:value}"}[op]
    elif op.startswith("ini_"):
        text = anymodel.text_of(secs)
        lines = text.split("\n")
        if op == "ini_no_header":
            first = [i for i, l in enumerate(lines) if l.startswith("[")][0]
            lines = lines[first + 1:first + 3] + lines[first:]
        elif op == "ini_bare_line":
            idx = [i for i, l in enumerate(lines) if l.startswith("[Pair")]
            if not idx:
                return None
            lines.insert(idx[0] + 1, "this line has no delimiter")
        else:
            # (a header that holds a delimiter - '[Table-Form:name' - would be a well-formed KEY : VALUE line of the
            # section before it, i.e. still an INI file)
            idx = [i for i, l in enumerate(lines) if l.startswith("[") and ":" not in l and "=" not in l]
            k = idx[site % len(idx)]
            lines[k] = lines[k].rstrip("]")
        return "\n".join(lines), op
    else:
        raise ValueError(op)
    return anymodel.text_of(secs), op


def _etag(msg):
    """'TYPE@frame' of an 'exception' outcome, whichever route produced it"""
    if msg.startswith("rc="):
        msg = msg.strip().splitlines()[-1]
    return msg.split(":")[0]


def run_outcome(text, target, route):
    if isinstance(text, bytes) and route not in ("cli", "main"):
        route = "main"          # a file that is not text exists only as a file
    if route in ("cli", "main"):
        return anymodel.cli_outcome(text, target, [], inproc=route == "main")
    return anymodel.outcome(text, target)


NUMERIC_FRAMES = ("potentialfunctions.py", "_pymath.py", "tableforms.py", "__init__.py:potential", "_util.py",
                  "_cexprtk_potential_function.py:__call__", "_python_potential_function.py", "spline/", "__init__.py:_init_spline",
                  "__init__.py:deriv", "_potential.py", "_lammps_writeTABLE.py", "_dlpoly_writeTABLE.py", "_lammpsWriteEAM.py",
                  "_dlpoly_writeTABEAM.py", "pair_tabulation.py", "eam_tabulation.py", "_multi_range_potential_form.py")


def base_models():
    import json
    return json.load(open(os.path.join(bootstrap.VERIF, "checks", "c16_base_models.json")))


def apply_text_edit(te):
    m = base_models()[te["base"]]
    chars = list(anymodel.text_of(anymodel.sections_of(m)))
    for kind, pos, ch in te["edits"]:
        if not chars:
            break
        pos = pos % len(chars)
        if kind == 0:
            chars[pos] = ch
        elif kind == 1:
            chars.insert(pos, ch)
        else:
            del chars[pos]
    return m["target"], "".join(chars)


def check_text_edit(case):
    """arbitrary character edits of a well-formed file: a table or a configuration error, never an
    exception from the configuration layer (numeric failures while evaluating a function are not structural)"""
    target, text = apply_text_edit(case["text_edit"])
    got = anymodel.outcome(text, None)
    v = []
    if got[0] == "exception":
        head = got[1].split(": ")[0]                  # Type@file.py:function
        etype = head.split("@")[0]
        numeric = etype in ("OverflowError", "ZeroDivisionError", "FloatingPointError") or \
            (etype == "ValueError" and "math domain" in got[1]) or any(f in head for f in NUMERIC_FRAMES) or "LinAlgError" in etype
        if not numeric:
            v.append(("text_edit:internal_error:" + head, "%s\n%s" % (got[1][:500], text)))
    return {"v": v, "cls": ["text_edit"], "nt": True}


def check_case(case):
    if "text_edit" in case:
        return check_text_edit(case)
    m, op = case["model"], case["op"]
    target = m["target"]
    route = case.get("route", "inproc")
    secs = anymodel.sections_of(m)
    base_text = anymodel.text_of(secs)
    if op is None:
        cls = ["valid_model", "target:" + target]
        if case.get("spelling"):
            cls.append("valid_target_spelling")
        got = run_outcome(base_text, target, route)
        v = []
        if got[0] == "config_error":
            v.append(("valid_model_refused" + (":target_spelling:" + case["spelling"] if case.get("spelling") else ""),
                      "%s\n%s" % (got[1][:400], base_text)))
        elif got[0] == "exception":
            etype = got[1].split("@")[0]
            if got[1].startswith("rc="):
                # the command line routes report 'rc=1 ...\nTYPE@frame: message'
                etype = got[1].strip().splitlines()[-1].split("@")[0]
            if etype in ("OverflowError", "ZeroDivisionError") or (etype == "ValueError" and "math domain" in got[1]):
                # a generated function left its numeric range on this grid (e.g. an embedding function at
                # rho = 200): the model is outside the generator's intended domain, not a structural matter
                return {"v": [], "cls": cls, "nt": False, "skip": True}
            v.append(("valid_model_internal_error:" + _etag(got[1]), "%s\n%s" % (got[1][:400], base_text)))
        nfun = len(m.get("pair", [])) + len(m.get("embed", []))
        return {"v": v, "cls": cls, "nt": nfun >= 2}
    cls = ["op:" + op, "route:" + route]
    base = anymodel.outcome(base_text, target)
    if base[0] != "ok":
        return {"v": [], "cls": [], "nt": False, "skip": True}
    mt = mutate(case)
    if mt is None:
        return {"v": [], "cls": [], "nt": False, "skip": True}
    text, what = mt
    got = run_outcome(text, target, route)
    v = []
    if got[0] == "ok":
        v.append(("accepted:" + op, "%s: a table was written\n%s" % (what, text)))
    elif got[0] == "exception":
        v.append(("internal_error:%s:%s" % (op, _etag(got[1])), "%s: %s\n%s" % (what, got[1][:500], text)))
    return {"v": v, "cls": cls, "nt": True}


def extra(tier, seed, record):
    import hypothesis
    from hypothesis import given, settings, HealthCheck, Phase
    n = 6 if tier == "quick" else 90
    done = {"n": 0}

    @hypothesis.seed(seed * 7919 + 41)
    @settings(max_examples=n, database=None, deadline=None, suppress_health_check=list(HealthCheck), phases=[Phase.generate])
    @given(st.sampled_from(OPERATORS).flatmap(_case))
    def run(case):
        case = dict(case, route="cli")
        res = check_case(case)
        if not res.get("skip"):
            done["n"] += 1
        record(case, res)
    run()
    cov = {"cli_runs": done["n"]}
    if tier == "thorough":
        cov.update(_atheris_campaign(seed, record))
    return cov


# ---- coverage-guided campaign (thorough) -----------------------------------------
def _atheris_campaign(seed, record, seconds=240):
    """libFuzzer (atheris) driving the same generator through hypothesis' fuzz_one_input with the
    same oracle in the target; findings are appended to a JSONL file as they occur because libFuzzer
    leaves the process without unwinding."""
    import json
    deps = os.path.join(bootstrap.VERIF, ".deps")
    if not os.path.isdir(os.path.join(deps, "atheris")):
        return {"atheris": "skipped: wheel not installed (run_check.py --setup)"}
    work = os.path.join(bootstrap.VERIF, ".work", "C16")
    os.makedirs(work, exist_ok=True)
    outp = os.path.join(work, "atheris_%d.jsonl" % seed)
    if os.path.exists(outp):
        os.remove(outp)
    corpus = os.path.join(work, "corpus_%d" % seed)
    subprocess.call(["rm", "-rf", corpus])
    os.makedirs(corpus)
    # hypothesis' fuzz_one_input needs a few kB of choices per model: start from long pseudo-random
    # buffers (derived from the seed, not from the clock) besides libFuzzer's own empty input
    import hashlib
    for i in range(24):
        buf = b"".join(hashlib.sha256(("%d-%d-%d" % (seed, i, j)).encode()).digest() for j in range(128))
        with open(os.path.join(corpus, "seed_%02d" % i), "wb") as f:
            f.write(buf)
    env = dict(os.environ, VERIF_C16_OUT=outp, PYTHONPATH=deps + os.pathsep + bootstrap.VERIF)
    cmd = [sys.executable, "-W", "ignore", os.path.join(bootstrap.VERIF, "checks", "c16_fuzz_target.py"),
           "-max_total_time=%d" % seconds, "-seed=%d" % (seed or 1), "-max_len=8192", "-len_control=0", corpus]
    t0 = time.time()
    try:
        p = subprocess.run(cmd, env=env, stdout=subprocess.PIPE, stderr=subprocess.STDOUT, timeout=seconds + 120)
        tail = p.stdout.decode(errors="replace")[-400:]
    except subprocess.TimeoutExpired:
        tail = "timeout"
    n = 0
    execs = 0
    if os.path.exists(outp):
        for line in open(outp):
            try:
                d = json.loads(line)
            except ValueError:
                continue
            if d.get("kind") == "count":
                execs = max(execs, d["n"])
                continue
            n += 1
            record(d["case"], d["res"])
    return {"atheris": "ran %.0fs" % (time.time() - t0), "atheris_executions": execs, "atheris_findings": n,
            "atheris_log_tail": tail[-200:]}
