#!/bin/sh
# usage: tools/seed_sweep.sh "1 2 3 4 5 6" [PYTHONHASHSEED]  -- quick tier of every check at several seeds, 4 at a time,
# writing evidence/replays to a scratch directory; prints every run that does not exit 0
SEEDS=${1:-"1 2 3 4 5 6"}
HS=${2:-0}
cd "$(dirname "$0")/.."
OUT=$(mktemp -d /var/tmp/sweep.XXXXXX)
for s in $SEEDS; do
  for c in C01 C02 C03 C04 C05 C06 C07 C08 C09 C10 C11 C12 C13 C14 C15 C16 C17 C18 C19 C20; do
    echo "$s $c"
  done
done | xargs -P 12 -L 1 sh -c 'VERIF_OUT='$OUT'/$0 VERIF_SEED=$0 PYTHONHASHSEED='$HS' /venv/bin/python run_check.py $1 --tier quick > '$OUT'/$1.$0.log 2>&1; echo "$? $1 seed=$0" >> '$OUT'/rc.txt'
grep -v "^0 " $OUT/rc.txt | sort
echo "runs: $(wc -l < $OUT/rc.txt), non-zero: $(grep -vc '^0 ' $OUT/rc.txt)"
for f in $(grep -v "^0 " $OUT/rc.txt | awk '{print $2"."substr($3,6)}'); do echo "== $f"; grep -E "^VIOLATION|^  bucket|^HARNESS|Error" $OUT/$f.log | head -6; done
echo "logs in $OUT"
