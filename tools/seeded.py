#!/venv/bin/python
"""Seeded changes written independently by sub-agents (each given only a property's text and a scratch worktree).

  tools/seeded.py add SRC_DIR NAME CNN [CNN...]   verify a delivered change (patch applies to a scratch worktree of
                                                  /repo HEAD, its demo fails with the change and passes without, the
                                                  repository suite stays green) and store it as seeded/NAME/
  tools/seeded.py run [NAME...] [--tier quick]    apply each stored patch to a scratch worktree and run the checks named
                                                  in its meta.json against it; records results in seeded/NAME/meta.json
Nothing is ever applied to /repo itself.
"""
import json
import os
import shutil
import subprocess
import sys

HERE = os.path.dirname(os.path.dirname(os.path.abspath(__file__)))
sys.path.insert(0, HERE)
from tools import mutants  # noqa: E402

SEEDED = os.path.join(HERE, "seeded")


def _demo(path, wt):
    env = dict(os.environ, SEED_WT=wt, PYTHONWARNINGS="ignore")
    p = subprocess.run([sys.executable, "-W", "ignore", path], env=env, stdout=subprocess.PIPE, stderr=subprocess.STDOUT,
                       timeout=600, cwd="/var/tmp")
    return p.returncode, p.stdout.decode(errors="replace")[-1500:]


def verify(patch, demo):
    """-> dict(applies, demo_clean_rc, demo_patched_rc, suite_green, suite)"""
    out = {}
    d = mutants.make_scratch()
    try:
        repo = os.path.join(d, "repo")
        rc, _ = _demo(demo, repo)
        out["demo_clean_rc"] = rc
        r = subprocess.run(["git", "-C", repo, "apply", os.path.abspath(patch)], stdout=subprocess.PIPE, stderr=subprocess.STDOUT)
        if r.returncode != 0:
            # /repo gained fix: commits while the change was being written: merge
            r = subprocess.run(["git", "-C", repo, "apply", "--3way", os.path.abspath(patch)], stdout=subprocess.PIPE, stderr=subprocess.STDOUT)
            out["applied_with_3way"] = r.returncode == 0
        out["applies"] = r.returncode == 0
        if not out["applies"]:
            out["apply_error"] = r.stdout.decode()[-500:]
            return out
        rc, txt = _demo(demo, repo)
        out["demo_patched_rc"] = rc
        out["demo_patched_output"] = txt[-600:]
        out["suite_green"], out["suite"] = mutants.run_suite(repo)
    finally:
        mutants.drop_scratch(d)
    return out


def run_checks(patch, pids, tier="quick", seed="1"):
    d = mutants.make_scratch()
    try:
        repo = os.path.join(d, "repo")
        r = subprocess.run(["git", "-C", repo, "apply", os.path.abspath(patch)], stdout=subprocess.PIPE, stderr=subprocess.STDOUT)
        if r.returncode != 0:
            # /repo has moved on since the change was written (later fix: commits): merge it
            subprocess.check_call(["git", "-C", repo, "apply", "--3way", os.path.abspath(patch)],
                                  stdout=subprocess.DEVNULL, stderr=subprocess.DEVNULL)
        return mutants.run_checks(repo, os.path.join(d, "out"), pids, tier, seed)
    finally:
        mutants.drop_scratch(d)


def add(src, name, pids):
    patch, demo = os.path.join(src, "patch.diff"), os.path.join(src, "demo.py")
    v = verify(patch, demo)
    print(json.dumps(v, indent=1)[:1500])
    ok = v.get("applies") and v.get("demo_clean_rc") == 0 and v.get("demo_patched_rc") == 1 and v.get("suite_green")
    if not ok:
        print("NOT KEPT: %s does not satisfy (applies, demo passes clean, demo fails patched, suite green)" % name)
        return 1
    dst = os.path.join(SEEDED, name)
    os.makedirs(dst, exist_ok=True)
    shutil.copy(patch, os.path.join(dst, "patch.diff"))
    shutil.copy(demo, os.path.join(dst, "demo.py"))
    meta = {}
    try:
        meta = json.load(open(os.path.join(src, "meta.json")))
    except Exception:
        pass
    meta = {"property": pids[0], "checks": pids, "author": "independent sub-agent (given only the property text and a scratch worktree)",
            "summary": meta.get("summary"), "needs": meta.get("needs"), "files": meta.get("files"),
            "verified": {"patch_applies_to_HEAD": True, "demo_exit_clean": 0, "demo_exit_patched": 1,
                         "repository_suite_with_patch": v["suite"],
                         "how": "tools/seeded.py add: scratch git worktree of /repo HEAD under /var/tmp, demo run with SEED_WT, "
                                "repository test command with a conftest.py re-pointing the editable install"}}
    json.dump(meta, open(os.path.join(dst, "meta.json"), "w"), indent=1)
    print("kept as seeded/%s" % name)
    return 0


def run(names, tier):
    names = names or sorted(os.listdir(SEEDED))
    for n in names:
        dst = os.path.join(SEEDED, n)
        mp = os.path.join(dst, "meta.json")
        if not os.path.exists(mp):
            continue
        meta = json.load(open(mp))
        res = run_checks(os.path.join(dst, "patch.diff"), meta["checks"], tier)
        caught = [p for p, r in res.items() if r["rc"] == 1]
        meta.setdefault("results", {})[tier] = {"caught_by": caught, "detail": dict(
            (p, {"rc": r["rc"], "wall_s": r["wall"], "first_lines": r["lines"][:4]}) for p, r in res.items())}
        json.dump(meta, open(mp, "w"), indent=1)
        print("%-22s %s %s" % (n, "CAUGHT by " + ",".join(caught) if caught else "MISSED", dict((p, (r["rc"], r["wall"])) for p, r in res.items())))
        for r in res.values():
            for l in r["lines"][:2] + r["tail"]:
                print("      " + l[:220])


if __name__ == "__main__":
    a = sys.argv[1:]
    if a and a[0] == "add":
        sys.exit(add(a[1], a[2], a[3:]))
    if a and a[0] == "run":
        tier = "quick"
        if "--tier" in a:
            tier = a[a.index("--tier") + 1]
            a = [x for x in a if x not in ("--tier", tier)]
        run(a[1:], tier)
