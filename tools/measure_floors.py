#!/venv/bin/python
"""tools/measure_floors.py SWEEP_DIR  -- recompute checks/required_floors.json from a seed sweep (tools/seed_sweep.sh):
for every class a check lists in REQUIRED, 40 % of the smallest count seen over the swept seeds (25 % below 20; at least 1)."""
import glob
import importlib
import json
import os
import sys

HERE = os.path.dirname(os.path.dirname(os.path.abspath(__file__)))
sys.path.insert(0, HERE)
from vlib import runner  # noqa: E402

sweeps = sys.argv[1:]
out = {}
for pid, modname in sorted(runner.CHECKS.items()):
    mod = importlib.import_module(modname)
    req = getattr(mod, "REQUIRED", {})
    evs = [json.load(open(p)) for sweep in sweeps for p in sorted(glob.glob(os.path.join(sweep, "*", "evidence", pid + ".json")))]
    if not evs:
        continue
    out[pid] = {}
    for cls in sorted(req):
        lo = min(e["coverage"]["classes"].get(cls, 0) for e in evs)
        if lo == 0:
            print("WARNING %s class %r not reached at some seed" % (pid, cls))
        # small counts fluctuate relatively more: a quarter of the minimum below 20, 40 % above
        out[pid][cls] = max(1, int(0.4 * lo) if lo >= 20 else int(0.25 * lo))
json.dump(out, open(os.path.join(HERE, "checks", "required_floors.json"), "w"), indent=1, sort_keys=True)
print("floors written for %d checks from %d seeds" % (len(out), sum(len(glob.glob(os.path.join(sw, "*", "evidence", "C01.json"))) for sw in sweeps)))
