#!/venv/bin/python
"""Regenerates MANIFEST.json from the table below (keeps it valid at all times)."""
import json
import os
import sys

HERE = os.path.dirname(os.path.dirname(os.path.abspath(__file__)))

ALL = ["C%02d" % i for i in range(1, 21)]

# property id -> (level category, technique, level text, level note, design ref)
BUILT = dict((k, (v["category"], v["technique"], v["text"], v["note"], v["design_ref"]))
             for k, v in json.load(open(os.path.join(HERE, "tools", "manifest_entries.json"))).items())

PENDING_REASON = "check not built yet in this round (planned, see DESIGN.md section 4); not claimed until it runs"


def main():
    checks = []
    for pid in ALL:
        if pid not in BUILT:
            continue
        cat, tech, text, note, ref = BUILT[pid]
        checks.append({
            "property_id": pid,
            "quick_cmd": "/venv/bin/python run_check.py %s --tier quick" % pid,
            "thorough_cmd": "/venv/bin/python run_check.py %s --tier thorough" % pid,
            "evidence_file": "/verif/evidence/%s.json" % pid,
            "replay_cmd_template": "/venv/bin/python run_check.py %s --replay {path}" % pid,
            "engine": "runner",
            "level_claimed": {"category": cat, "text": text, "design_ref": ref},
            "level_note": note,
            "technique": tech,
        })
    na = [{"property_id": p, "reason": PENDING_REASON} for p in ALL if p not in BUILT]
    m = {
        "version": 1,
        "setup_cmd": "/venv/bin/python run_check.py --setup",
        "hooks": {"guard": "ATSIM_POTENTIALS_VERIF",
                  "enable": "no hooks are needed: checks import /repo's working tree directly (editable install) and drive it in-process; the guard variable exists but no source commit uses it",
                  "baseline_off_cmd": "/verif/tools/repo_suite.sh /repo",
                  "source_commits": [], "add_only": True},
        "engines": [{"name": "runner", "path": "run_check.py",
                     "serves_properties": [c["property_id"] for c in checks],
                     "kind_free_text": "Hypothesis-driven generated-input search with explicit oracles, collect-then-shrink failure buckets, JSON replay files"}],
        "checks": checks,
        "notes": "See DESIGN.md. Every check: exit 0 = held on everything explored (KNOWN-FINDING lines allowed), 1 = unlisted violation (VIOLATION line + replay file), 2 = harness error.",
        "not_applicable": na,
    }
    with open(os.path.join(HERE, "MANIFEST.json"), "w") as f:
        json.dump(m, f, indent=1)
    try:
        import jsonschema
        jsonschema.validate(m, json.load(open("/root/.vp/MANIFEST.schema.json")))
        print("MANIFEST.json valid: %d checks, %d not_applicable" % (len(checks), len(na)))
    except ImportError:
        print("MANIFEST.json written (jsonschema not importable here)")


if __name__ == "__main__":
    main()
