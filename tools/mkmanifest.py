#!/venv/bin/python
"""Regenerates MANIFEST.json from the table below (keeps it valid at all times)."""
import json
import os
import sys

HERE = os.path.dirname(os.path.dirname(os.path.abspath(__file__)))

ALL = ["C%02d" % i for i in range(1, 21)]

# property id -> (level category, technique, level text, level note, design ref)
BUILT = {
 "C06": ("exploration",
         "Hypothesis-generated (form, parameters, r) against independent closed forms over four access routes (reference-model differential)",
         "Generated-input search over every built-in form's documented parameter domain; each value is compared with a closed form typed in from the documentation, evaluated with a cancellation-aware rounding scale, through potentialfunctions, potentialforms, potable sections and as.NAME() inside a formula; all routes must agree. A coverage matrix (form x route) with a floor per cell is enforced. Exploration: no absence proof, but argument-order, constant and exponent errors change values by O(1) at almost every generated point.",
         "Reference formulas in vlib/forms.py (ZBL/Tang-Toennies constants as declared by the module, DESIGN 3.4); buck4 interior vs an independent solve, tolerance scaled by the system's condition number.",
         "DESIGN.md 4 C06"),
 "C09": ("exploration",
         "grammar-based Hypothesis generation of potable definitions and custom formulas, stratified by construct; reference interpreter + formatting metamorphic relation + Python-API differential",
         "Generated-input search over the documented grammar (forms, ranges, nested modifiers, custom formulas with exprtk/pymath/as.* calls, if(), forms calling forms with different arguments), stratified so that every construct is reached by construction. Each definition is evaluated from potable text in all six sections, under two formatting/ordering variants (identical floats required) and through the Python API, against an independent reference interpreter. Exploration is the level that fits an unbounded grammar.",
         "Reference interpreter vlib/model.py; exprtk literal parsing is modelled as accurate to 2 ulp; pow() with exactly two arguments; table-form leaves use scipy's cubic spline as reference.",
         "DESIGN.md 4 C09"),
 "C08": ("exploration",
         "Hypothesis-generated range sets x all listing permutations x boundary probes against a reference selection rule (differential + metamorphic)",
         "Generated-input search: every listing permutation of 1..5 generated ranges is evaluated at, next to (nextafter), between and outside the starts through the API classes, the range_defns setter and potable text, and compared with an independent selection rule; permutation invariance is checked on exact floats. Exploration is the right level: the domain (markers x starts x orders x r) is small and boundary-driven, so generated boundary probes reach every branch of the search; no absence proof is claimed.",
         "Trusts the reference rule in vlib/model.py::select_range (DESIGN 3.4); r > s at a start shared by '>' and '>=' accepts either range.",
         "DESIGN.md 4 C08"),
}

PENDING_REASON = "check not built yet in this round (planned, see DESIGN.md section 4); not claimed until it runs"


def main():
    checks = []
    for pid in ALL:
        if pid not in BUILT:
            continue
        cat, tech, text, note, ref = BUILT[pid]
        checks.append({
            "property_id": pid,
            "quick_cmd": "/venv/bin/python run_check.py %s --tier quick" % pid,
            "thorough_cmd": "/venv/bin/python run_check.py %s --tier thorough" % pid,
            "evidence_file": "/verif/evidence/%s.json" % pid,
            "replay_cmd_template": "/venv/bin/python run_check.py %s --replay {path}" % pid,
            "engine": "runner",
            "level_claimed": {"category": cat, "text": text, "design_ref": ref},
            "level_note": note,
            "technique": tech,
        })
    na = [{"property_id": p, "reason": PENDING_REASON} for p in ALL if p not in BUILT]
    m = {
        "version": 1,
        "setup_cmd": "/venv/bin/python run_check.py --setup",
        "hooks": {"guard": "ATSIM_POTENTIALS_VERIF",
                  "enable": "no hooks are needed: checks import /repo's working tree directly (editable install) and drive it in-process; the guard variable exists but no source commit uses it",
                  "baseline_off_cmd": "/verif/tools/repo_suite.sh /repo",
                  "source_commits": [], "add_only": True},
        "engines": [{"name": "runner", "path": "run_check.py",
                     "serves_properties": [c["property_id"] for c in checks],
                     "kind_free_text": "Hypothesis-driven generated-input search with explicit oracles, collect-then-shrink failure buckets, JSON replay files"}],
        "checks": checks,
        "notes": "See DESIGN.md. Every check: exit 0 = held on everything explored (KNOWN-FINDING lines allowed), 1 = unlisted violation (VIOLATION line + replay file), 2 = harness error.",
        "not_applicable": na,
    }
    with open(os.path.join(HERE, "MANIFEST.json"), "w") as f:
        json.dump(m, f, indent=1)
    try:
        import jsonschema
        jsonschema.validate(m, json.load(open("/root/.vp/MANIFEST.schema.json")))
        print("MANIFEST.json valid: %d checks, %d not_applicable" % (len(checks), len(na)))
    except ImportError:
        print("MANIFEST.json written (jsonschema not importable here)")


if __name__ == "__main__":
    main()
