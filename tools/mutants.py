#!/venv/bin/python
"""Sensitivity protocol (DESIGN 1.6): apply a deliberate breakage to a scratch copy
of /repo (under /var/tmp), confirm the repository's own suite stays green, run the
quick tier of the named check(s) against the copy and report whether they fail.

  tools/mutants.py list
  tools/mutants.py run [-s] ID [ID...]      (-s: also run the repository suite on the copy)
  tools/mutants.py run [-s] --prop C06      (all catalogued mutants of a property)
  tools/mutants.py patch [-s] FILE.diff C06 [C07...]   (a patch file, e.g. seeded/<id>/patch.diff)
"""
import json
import os
import shutil
import subprocess
import sys
import tempfile
import time

HERE = os.path.dirname(os.path.dirname(os.path.abspath(__file__)))
sys.path.insert(0, HERE)
from tools.mutant_catalogue import MUTANTS  # noqa: E402

CONFTEST = '''
import os, sys
HERE = os.path.dirname(os.path.abspath(__file__))
try:
    import __editable___atsim_potentials_0_4_1_finder as F
    F.MAPPING["atsim"] = os.path.join(HERE, "atsim")
    F.MAPPING["tests.config"] = os.path.join(HERE, "tests", "config")
except ImportError:
    pass
import atsim
atsim.__path__[:] = [os.path.join(HERE, "atsim")]
'''


def make_scratch():
    d = tempfile.mkdtemp(prefix="atsim-scratch-", dir="/var/tmp")
    subprocess.check_call(["git", "-C", "/repo", "worktree", "add", "--detach", "-f", os.path.join(d, "repo"), "HEAD"],
                          stdout=subprocess.DEVNULL, stderr=subprocess.DEVNULL)
    # carry over uncommitted work-tree state of /repo too (checks must see the current tree)
    diff = subprocess.run(["git", "-C", "/repo", "diff", "HEAD"], stdout=subprocess.PIPE).stdout
    if diff.strip():
        subprocess.run(["git", "-C", os.path.join(d, "repo"), "apply"], input=diff, check=True)
    return d


def drop_scratch(d):
    subprocess.call(["git", "-C", "/repo", "worktree", "remove", "--force", os.path.join(d, "repo")],
                    stdout=subprocess.DEVNULL, stderr=subprocess.DEVNULL)
    shutil.rmtree(d, ignore_errors=True)
    subprocess.call(["git", "-C", "/repo", "worktree", "prune"])


def run_suite(repo):
    with open(os.path.join(repo, "conftest.py"), "w") as f:
        f.write(CONFTEST)
    r = subprocess.run([os.path.join(HERE, "tools", "repo_suite.sh"), repo], stdout=subprocess.PIPE, stderr=subprocess.STDOUT)
    os.remove(os.path.join(repo, "conftest.py"))
    out = [l for l in r.stdout.decode().splitlines() if "conda" not in l.lower()]
    return r.returncode == 0, " | ".join(out)


def run_checks(repo, outdir, pids, tier="quick", seed="1"):
    res = {}
    for pid in pids:
        env = dict(os.environ, VERIF_REPO=repo, VERIF_OUT=outdir, VERIF_SEED=seed, PYTHONHASHSEED="0")
        t0 = time.time()
        r = subprocess.run([sys.executable, "-W", "ignore", os.path.join(HERE, "run_check.py"), pid, "--tier", tier],
                           stdout=subprocess.PIPE, stderr=subprocess.STDOUT, env=env)
        out = r.stdout.decode()
        viol = [l for l in out.splitlines() if l.startswith("VIOLATION") or l.startswith("  bucket")]
        if r.returncode == 2:
            # keep the whole output of a harness error for inspection
            with open("/var/tmp/harness_error_%s_%d.log" % (pid, int(time.time() * 1000)), "w") as f:
                f.write(out)
        res[pid] = {"rc": r.returncode, "wall": round(time.time() - t0, 1), "lines": viol[:8],
                    "tail": out.splitlines()[-3:] if r.returncode == 2 else []}
    return res


def apply_mutant(repo, m):
    for f, old, new in [(m["file"], m["old"], m["new"])] + list(m.get("more", [])):
        p = os.path.join(repo, f)
        s = open(p).read()
        if s.count(old) != 1:
            raise SystemExit("mutant %s: pattern occurs %d times in %s" % (m["id"], s.count(old), f))
        open(p, "w").write(s.replace(old, new))


def main(argv):
    if not argv or argv[0] == "list":
        for m in MUTANTS:
            print("%-28s %-4s %s" % (m["id"], m["prop"], m["what"]))
        return 0
    suite = "-s" in argv
    argv = [a for a in argv if a != "-s"]
    results = []
    if argv[0] == "patch":
        patch, pids = argv[1], argv[2:]
        d = make_scratch()
        try:
            repo = os.path.join(d, "repo")
            subprocess.check_call(["git", "-C", repo, "apply", os.path.abspath(patch)])
            entry = {"id": patch, "props": pids}
            if suite:
                entry["suite_green"], entry["suite"] = run_suite(repo)
            entry["checks"] = run_checks(repo, os.path.join(d, "out"), pids)
            results.append(entry)
        finally:
            drop_scratch(d)
    else:
        ids = argv[1:]
        if ids and ids[0] == "--prop":
            sel = [m for m in MUTANTS if m["prop"] in ids[1:]]
        else:
            sel = [m for m in MUTANTS if m["id"] in ids]
        for m in sel:
            d = make_scratch()
            try:
                repo = os.path.join(d, "repo")
                apply_mutant(repo, m)
                entry = {"id": m["id"], "prop": m["prop"], "what": m["what"]}
                if suite:
                    entry["suite_green"], entry["suite"] = run_suite(repo)
                entry["checks"] = run_checks(repo, os.path.join(d, "out"), m.get("checks", [m["prop"]]))
                results.append(entry)
            finally:
                drop_scratch(d)
            caught = any(c["rc"] == 1 for c in entry["checks"].values())
            print("%-28s %s suite=%s %s" % (m["id"], "CAUGHT" if caught else "MISSED",
                                            entry.get("suite_green", "-"),
                                            {k: (v["rc"], v["wall"]) for k, v in entry["checks"].items()}))
            for c in entry["checks"].values():
                for l in c["lines"][:2] + c["tail"]:
                    print("      " + l[:200])
    if argv[0] == "patch":
        print(json.dumps(results, indent=1))
    # append to the results log
    logp = os.path.join(HERE, "tools", "mutant_results.json")
    import fcntl
    with open(logp + ".lock", "w") as lk:           # several runs may finish at once
        fcntl.flock(lk, fcntl.LOCK_EX)
        try:
            log = json.load(open(logp))
        except Exception:
            log = {}
        for e in results:
            log[e["id"]] = e
        with open(logp + ".tmp", "w") as f:
            json.dump(log, f, indent=1, sort_keys=True)
        os.replace(logp + ".tmp", logp)
    return 0


if __name__ == "__main__":
    sys.exit(main(sys.argv[1:]))
