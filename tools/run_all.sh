#!/bin/sh
# usage: tools/run_all.sh quick|thorough [seed]   -- runs every registered check, prints one summary line each
TIER=${1:-quick}
SEED=${2:-1}
cd "$(dirname "$0")/.."
/venv/bin/python run_check.py --setup >/dev/null 2>&1
for c in C01 C02 C03 C04 C05 C06 C07 C08 C09 C10 C11 C12 C13 C14 C15 C16 C17 C18 C19 C20; do
  VERIF_SEED=$SEED /venv/bin/python run_check.py $c --tier $TIER > /var/tmp/run_all_$c.log 2>&1
  rc=$?
  echo "rc=$rc $(grep -E "^$c tier" /var/tmp/run_all_$c.log | tail -1)"
  grep -E "^VIOLATION|^  bucket|^HARNESS|^KNOWN" /var/tmp/run_all_$c.log | head -8
done
