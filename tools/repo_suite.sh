#!/bin/sh
# Run the repository's pinned test command (guard off) and summarise against BASELINE.json
# usage: repo_suite.sh [repo_dir]
REPO=${1:-/repo}
OUT=$(mktemp /var/tmp/junit.XXXXXX.xml)
cd "$REPO" && /venv/bin/python -m pytest -ra -q -p no:cacheprovider --timeout=900 --continue-on-collection-errors --junitxml="$OUT" >/var/tmp/repo_suite.log 2>&1
/venv/bin/python - "$OUT" <<'PY'
import sys, json, xml.etree.ElementTree as ET
base = json.load(open('/root/.vp/BASELINE.json'))
want = set(base['stable_pass'])
root = ET.parse(sys.argv[1]).getroot()
passed = set()
failed = set()
for tc in root.iter('testcase'):
    name = "%s::%s" % (tc.get('classname'), tc.get('name'))
    if tc.find('failure') is not None or tc.find('error') is not None:
        failed.add(name)
    elif tc.find('skipped') is None:
        passed.add(name)
missing = sorted(want - passed)
print("passed=%d failed=%d baseline=%d baseline_missing=%d" % (len(passed), len(failed), len(want), len(missing)))
for m in missing[:20]:
    print("  MISSING:", m)
extra_fail = sorted(failed - set(base['always_fail']))
for m in extra_fail[:20]:
    print("  NEW FAILURE:", m)
sys.exit(1 if missing else 0)
PY
rc=$?
rm -f "$OUT"
exit $rc
