#!/venv/bin/python
"""Keep only replay files that are meaningful regression inputs on the current tree: the saved case must run
through check_case without a harness error and hold (every committed replay stems from a defect that has been
repaired or from a corrected false alarm).  A shrunk case that no longer runs is replaced by its unshrunk original
when that runs; otherwise the file is removed."""
import glob
import json
import os
import sys

HERE = os.path.dirname(os.path.dirname(os.path.abspath(__file__)))
sys.path.insert(0, HERE)
from vlib import runner  # noqa: E402

kept = removed = swapped = 0
for p in sorted(glob.glob(os.path.join(HERE, "replays", "*", "*.json"))):
    pid = os.path.basename(os.path.dirname(p))
    mod = runner.load_module(pid)
    d = json.load(open(p))
    valid = getattr(mod, "validate", lambda c: True)

    def ok(case):
        try:
            if not valid(case):
                return False
            r = mod.check_case(case)
            return not r.get("v") and not r.get("skip")
        except Exception:
            return False
    if ok(d["case"]):
        kept += 1
    elif "unshrunk_case" in d and ok(d["unshrunk_case"]):
        d["case"] = d.pop("unshrunk_case")
        json.dump(d, open(p, "w"), indent=1, sort_keys=True)
        swapped += 1
    else:
        os.remove(p)
        removed += 1
print("kept %d, replaced by unshrunk %d, removed %d" % (kept, swapped, removed))
