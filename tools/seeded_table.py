#!/venv/bin/python
"""Markdown table of stored seeded changes (DESIGN 8.5): tools/seeded_table.py [SUFFIXES]
e.g. tools/seeded_table.py ij   -> the rows of every seeded/<CNN><i|j>; without argument all of them.
Also prints the totals of the last `tools/seeded.py run` results recorded in the meta files."""
import json
import os
import sys

HERE = os.path.dirname(os.path.dirname(os.path.abspath(__file__)))


def cell(s, n=200):
    s = " ".join(str(s or "").split()).replace("|", "/")
    return s[:n]


def main():
    suf = sys.argv[1] if len(sys.argv) > 1 else None
    rows, caught, missed = [], 0, []
    for n in sorted(os.listdir(os.path.join(HERE, "seeded"))):
        mp = os.path.join(HERE, "seeded", n, "meta.json")
        if not os.path.exists(mp) or (suf and n[-1] not in suf):
            continue
        m = json.load(open(mp))
        by = (m.get("results", {}).get("quick", {}) or {}).get("caught_by", [])
        if by:
            caught += 1
        else:
            missed.append(n)
        rows.append("| %s | %s | %s | %s | %s |" % (n, m.get("property"), cell(m.get("summary")), cell(m.get("needs")), ", ".join(by) or "-"))
    print("| id | property | change | needs | caught by |\n|---|---|---|---|---|")
    print("\n".join(rows))
    print("\ncaught %d of %d; not caught: %s" % (caught, len(rows), ", ".join(missed) or "none"), file=sys.stderr)


if __name__ == "__main__":
    main()
