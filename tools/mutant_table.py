#!/venv/bin/python
"""Markdown table of the catalogued mutants and their last recorded results (DESIGN 8.4):
tools/mutant_table.py > table.md ; totals go to stderr."""
import json
import os
import sys

HERE = os.path.dirname(os.path.dirname(os.path.abspath(__file__)))
sys.path.insert(0, HERE)
from tools.mutant_catalogue import MUTANTS  # noqa: E402


def main():
    res = json.load(open(os.path.join(HERE, "tools", "mutant_results.json")))
    print("| property | mutant | what | result | suite green | first bucket |\n|---|---|---|---|---|---|")
    caught = missed = unknown = 0
    for m in MUTANTS:
        r = res.get(m["id"])
        if not r:
            unknown += 1
            print("| %s | %s | %s | not run | - | - |" % (m["prop"], m["id"], m["what"].replace("|", "/")))
            continue
        by = [p for p, c in r["checks"].items() if c["rc"] == 1]
        bucket = "-"
        for p in by:
            for l in r["checks"][p]["lines"]:
                if "bucket:" in l:
                    bucket = l.split("bucket:")[1].split("(")[0].strip()
                    break
            if bucket != "-":
                break
        if by:
            caught += 1
        else:
            missed += 1
        sg = r.get("suite_green")
        print("| %s | %s | %s | %s | %s | %s |" % (m["prop"], m["id"], m["what"].replace("|", "/"),
                                                   ("caught" + ("" if by == [m["prop"]] else " by " + ",".join(by))) if by else "MISSED",
                                                   "-" if sg is None else sg, bucket))
    print("caught %d, missed %d, not run %d of %d" % (caught, missed, unknown, len(MUTANTS)), file=sys.stderr)


if __name__ == "__main__":
    main()
